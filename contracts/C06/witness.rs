fn witness_partial(g: &mut GroupOrderingPartial)
    requires old(g).state is InProgress, old(g).state->current_sort == 2, old(g).state->current == 5,
{
    let e = g.emit_to();
    g.remove_groups(2);
    g.input_done();
    g.reset();
    //@MUSTFAIL
}
