"""C06 — grouped aggregation: early emission never emits a group that may still receive rows."""
LEVEL = "proof"
FP = "datafusion/physical-plan/src/aggregates/order/partial.rs"
IMPLP = "impl GroupOrderingPartial"
# R9: diverging macros -> vstd unreached() (requires false: the contract excludes those states); R5: assert! dropped
# (the following subtraction carries the same obligation as an underflow check)
DIVERGE = [dict(rule="R9", regex=r'unreachable!\("[^"]*"\)', replace="vstd::pervasive::unreached()", count="any"),
           dict(rule="R9", regex=r'panic!\("[^"]*"\)', replace="vstd::pervasive::unreached()", count="any"),
           dict(rule="R5", regex=r"assert!\([^;]*\);", replace="", count="any")]
VERUS = [dict(
    name="group_ordering_partial",
    uses="use vstd::prelude::*;\n",
    prelude="prelude.rs", proofs="proofs.rs", witness="witness.rs", rlimit=30, min_verified=5, twins=[],
    global_edits=DIVERGE,
    items=[
        dict(file=FP, path=["enum State"]),
        dict(file=FP, path=["struct GroupOrderingPartial"]),
        dict(file=FP, path=[IMPLP, "fn emit_to"], wrap=IMPLP, ret="r",
             contract="""    requires !(self.state is Taken), wf(self.state),
    ensures
        self.state is Start ==> r is None,
        self.state is Complete ==> r == Some(EmitTo::All),
        // while input is open only the groups before the current sort-key run may go: First(current_sort),
        // which never includes an open group (current_sort..=current)
        self.state is InProgress ==> (if self.state->current_sort == 0 { r is None }
                                      else { r == Some(EmitTo::First(self.state->current_sort)) && self.state->current_sort <= self.state->current }),"""),
        dict(file=FP, path=[IMPLP, "fn remove_groups"], wrap=IMPLP,
             contract="""    requires old(self).state is InProgress, wf(old(self).state), n <= old(self).state->current_sort,
    ensures
        // renumbering by exactly n; the run stays open with the same sort key
        final(self).state is InProgress, wf(final(self).state),
        final(self).state->current_sort == old(self).state->current_sort - n,
        final(self).state->current == old(self).state->current - n,
        final(self).state->sort_key == old(self).state->sort_key,
        final(self).order_indices == old(self).order_indices,"""),
        dict(file=FP, path=[IMPLP, "fn input_done"], wrap=IMPLP,
             contract="    requires !(old(self).state is Taken),\n    ensures final(self).state is Complete, final(self).order_indices == old(self).order_indices,"),
        dict(file=FP, path=[IMPLP, "fn reset"], wrap=IMPLP,
             contract="    ensures final(self).state is Start, final(self).order_indices == old(self).order_indices,"),
    ],
    mutants=[
        dict(name="emit_current_instead_of_current_sort", item="emit_to", find="Some(EmitTo::First(*current_sort))", replace="Some(EmitTo::First(*current_sort + 1))"),
        dict(name="remove_groups_forgets_current_sort", item="remove_groups", find="*current_sort -= n;", replace=""),
        dict(name="input_done_noop", item="input_done", find="_ => State::Complete,", replace="_ => State::Start,"),
    ],
)]
KANI = [dict(package="datafusion-physical-plan", timeout=900, harnesses=[
    dict(name="c06_full_emit_to", module="physical_plan/order_full.rs", complete=True, what="GroupOrderingFull::emit_to over every state: None before input / on the first group, First(current) while in progress (the open group is never included), All only after input_done"),
    dict(name="c06_full_transitions", module="physical_plan/order_full.rs", complete=True, what="new_groups / remove_groups / input_done / reset: current = last group index; remove_groups(n) renumbers by exactly n; after emitting what emit_to allowed the open group is group 0"),
    dict(name="c06_full_illegal_transitions_panic", module="physical_plan/order_full.rs", complete=True, what="remove_groups in Start/Complete, new_groups after Complete and remove_groups(n > current) panic (should_panic)"),
    dict(name="c06_partial_emit_to_and_remove", module="physical_plan/order_partial.rs", complete=True, what="GroupOrderingPartial::emit_to == First(current_sort) (groups with an earlier sort key only), remove_groups shifts current and current_sort by n and keeps current_sort <= current"),
    dict(name="c06_partial_remove_beyond_sort_boundary_panics", module="physical_plan/order_partial.rs", complete=True, what="remove_groups(n > current_sort) panics"),
])]
TRUSTED = ["Kani 0.68 / CBMC 6.11", "Verus 0.2026.09.13 + bundled Z3 for GroupOrderingPartial (rewrites R5, R9: diverging macros -> unreached())"]
ASSUMPTIONS = ["representation invariant current_sort <= current of GroupOrderingPartial (established by new_groups from Arrow partition ranges; new_groups itself is not verified)",
               "only the early-emission state machines are within reach: hash tables, accumulators, spilling, TopK, partial/final agreement are not verified"]
NOT_COVERED = ["GroupOrderingPartial::new_groups (arrow_ord::partition, ScalarValue comparison)", "GroupValues / accumulators / streams / spilling / grouped TopK", "agreement between aggregation strategies"]
EXPLANATION = "The ordered-aggregation emission state machines are proved never to release the group (or sort-key run) that can still receive rows; the rest of C06 is whole-engine and outside contracts."
