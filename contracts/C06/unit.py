"""C06 — grouped aggregation: early emission never emits a group that may still receive rows."""
LEVEL = "proof"
VERUS = []
KANI = [dict(package="datafusion-physical-plan", timeout=2400, harnesses=[
    dict(name="c06_full_emit_to", module="physical_plan/order_full.rs", complete=True, what="GroupOrderingFull::emit_to over every state: None before input / on the first group, First(current) while in progress (the open group is never included), All only after input_done"),
    dict(name="c06_full_transitions", module="physical_plan/order_full.rs", complete=True, what="new_groups / remove_groups / input_done / reset: current = last group index; remove_groups(n) renumbers by exactly n; after emitting what emit_to allowed the open group is group 0"),
    dict(name="c06_full_illegal_transitions_panic", module="physical_plan/order_full.rs", complete=True, what="remove_groups in Start/Complete, new_groups after Complete and remove_groups(n > current) panic (should_panic)"),
    dict(name="c06_partial_emit_to_and_remove", module="physical_plan/order_partial.rs", complete=True, what="GroupOrderingPartial::emit_to == First(current_sort) (groups with an earlier sort key only), remove_groups shifts current and current_sort by n and keeps current_sort <= current"),
    dict(name="c06_partial_remove_beyond_sort_boundary_panics", module="physical_plan/order_partial.rs", complete=True, what="remove_groups(n > current_sort) panics"),
])]
TRUSTED = ["Kani 0.68 / CBMC 6.11"]
ASSUMPTIONS = ["representation invariant current_sort <= current of GroupOrderingPartial (established by new_groups from Arrow partition ranges; new_groups itself is not verified)",
               "only the early-emission state machines are within reach: hash tables, accumulators, spilling, TopK, partial/final agreement are not verified"]
NOT_COVERED = ["GroupOrderingPartial::new_groups (arrow_ord::partition, ScalarValue comparison)", "GroupValues / accumulators / streams / spilling / grouped TopK", "agreement between aggregation strategies"]
EXPLANATION = "The ordered-aggregation emission state machines are proved never to release the group (or sort-key run) that can still receive rows; the rest of C06 is whole-engine and outside contracts."
