// opaque dependency type (sort keys are only stored and dropped here)
pub struct ScalarValue {}
/// datafusion_expr::EmitTo
pub enum EmitTo { All, First(usize) }
