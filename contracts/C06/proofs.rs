/// representation invariant of the in-progress state: the groups of the current sort-key run are
/// current_sort..=current
spec fn wf(s: State) -> bool { s is InProgress ==> s->current_sort <= s->current }
