/// the types whose literals denote plain numbers (integers and decimals): the claim is restricted to them
spec fn is_plain(t: DataType) -> bool {
    t is UInt8 || t is UInt16 || t is UInt32 || t is UInt64 || t is Int8 || t is Int16 || t is Int32 || t is Int64
    || t is Decimal32 || t is Decimal64 || t is Decimal128
}
/// well-formed Arrow decimal types: precision within the width's table; the scale is any i8 (Arrow allows negative scales)
spec fn valid_type(t: DataType) -> bool {
    match t {
        DataType::Decimal32(p, _) => 1 <= p <= 9,
        DataType::Decimal64(p, _) => 1 <= p <= 18,
        DataType::Decimal128(p, _) => 1 <= p <= 38,
        _ => true,
    }
}
spec fn scale_of(t: DataType) -> int {
    match t { DataType::Decimal32(_, s) => s as int, DataType::Decimal64(_, s) => s as int, DataType::Decimal128(_, s) => s as int, _ => 0 }
}
/// unscaled integer carried by a plain literal (None for NULL / non-plain literals)
spec fn unscaled(v: ScalarValue) -> Option<int> {
    match v {
        ScalarValue::Int8(Some(x)) => Some(x as int), ScalarValue::Int16(Some(x)) => Some(x as int),
        ScalarValue::Int32(Some(x)) => Some(x as int), ScalarValue::Int64(Some(x)) => Some(x as int),
        ScalarValue::UInt8(Some(x)) => Some(x as int), ScalarValue::UInt16(Some(x)) => Some(x as int),
        ScalarValue::UInt32(Some(x)) => Some(x as int), ScalarValue::UInt64(Some(x)) => Some(x as int),
        ScalarValue::Decimal32(Some(x), _, _) => Some(x as int), ScalarValue::Decimal64(Some(x), _, _) => Some(x as int),
        ScalarValue::Decimal128(Some(x), _, _) => Some(x as int),
        _ => None,
    }
}
/// range of a plain target type
spec fn in_range(t: DataType, x: int) -> bool {
    match t {
        DataType::UInt8 => 0 <= x <= u8::MAX, DataType::UInt16 => 0 <= x <= u16::MAX,
        DataType::UInt32 => 0 <= x <= u32::MAX, DataType::UInt64 => 0 <= x <= u64::MAX,
        DataType::Int8 => i8::MIN <= x <= i8::MAX, DataType::Int16 => i16::MIN <= x <= i16::MAX,
        DataType::Int32 => i32::MIN <= x <= i32::MAX, DataType::Int64 => i64::MIN <= x <= i64::MAX,
        DataType::Decimal32(p, _) => 1 - p10(p as nat) <= x <= p10(p as nat) - 1,
        DataType::Decimal64(p, _) => 1 - p10(p as nat) <= x <= p10(p as nat) - 1,
        DataType::Decimal128(p, _) => 1 - p10(p as nat) <= x <= p10(p as nat) - 1,
        _ => false,
    }
}
/// THE PROPERTY for one literal: the result denotes exactly the same number in the target type:
///   r / 10^ts == v / 10^ls   (cross-multiplied over the integers), r within the target's range
spec fn exact_cast(lit: ScalarValue, target: DataType, res: ScalarValue) -> bool {
    let ls = scale_of(spec_data_type(lit));
    let ts = scale_of(target);
    &&& spec_data_type(res) == target
    &&& unscaled(res) is Some && unscaled(lit) is Some
    &&& in_range(target, unscaled(res)->Some_0)
    &&& ls >= 0 && ts >= 0
    &&& unscaled(res)->Some_0 * p10(ls as nat) == unscaled(lit)->Some_0 * p10(ts as nat)
}
proof fn lemma_p10_pos(n: nat) ensures p10(n) >= 1, decreases n {
    reveal(pow);
    if n > 0 { lemma_p10_pos((n - 1) as nat); }
}
proof fn lemma_p10_mono(a: nat, b: nat) requires a <= b ensures p10(a) <= p10(b), p10(b) == p10(a) * p10((b - a) as nat), decreases b {
    reveal(pow);
    lemma_p10_pos(a);
    if a < b {
        lemma_p10_mono(a, (b - 1) as nat);
        lemma_p10_pos((b - 1) as nat);
        assert(p10(b) == 10 * p10((b - 1) as nat));
        assert(p10((b - a) as nat) == 10 * p10((b - 1 - a) as nat));
        assert(p10(b) == p10(a) * p10((b - a) as nat)) by(nonlinear_arith)
            requires p10(b) == 10 * p10((b - 1) as nat), p10((b - 1) as nat) == p10(a) * p10((b - 1 - a) as nat), p10((b - a) as nat) == 10 * p10((b - 1 - a) as nat);
        lemma_p10_pos((b - a) as nat);
        assert(p10(a) <= p10(b)) by(nonlinear_arith) requires p10(b) == p10(a) * p10((b - a) as nat), p10(a) >= 1, p10((b - a) as nat) >= 1;
    } else {
        assert(p10(0) == 1);
    }
}
/// 10^38 < 2^127
proof fn lemma_p10_38() ensures p10(38) == 100000000000000000000000000000000000000int, p10(38) <= i128::MAX, {
    assert(p10(38) == 100000000000000000000000000000000000000int) by(compute);
}

/// (v*k)*l == v*(l*k)
proof fn lemma_scale_up(v: int, k: int, l: int) ensures (v * k) * l == v * (l * k) { assert((v * k) * l == v * (l * k)) by(nonlinear_arith); }
/// q*k == v  ==>  q*(m*k) == v*m
proof fn lemma_scale_down(q: int, k: int, m: int, v: int) requires q * k == v ensures q * (m * k) == v * m { assert(q * (m * k) == v * m) by(nonlinear_arith) requires q * k == v; }
proof fn lemma_p10_zero() ensures p10(0) == 1 { reveal(pow); }
/// strict: a < b ==> 10^a < 10^b
proof fn lemma_p10_strict(a: nat, b: nat) requires a < b ensures p10(a) < p10(b) {
    reveal(pow);
    lemma_p10_mono(a, (b - 1) as nat);
    lemma_p10_pos((b - 1) as nat);
    assert(p10(b) == 10 * p10((b - 1) as nat));
}
