"""C47 (partial) — literal casts used when comparisons between different numeric types are unwrapped:
try_cast_numeric_literal returns a literal that denotes exactly the same number, or refuses."""
LEVEL = "proof"
F = "datafusion/expr-common/src/casts.rs"
TABLES = [dict(rule="R13", find="%s_DECIMAL%s_FOR_EACH_PRECISION[*precision as usize]" % (m, w), replace="%s_dec%s(*precision)" % (m.lower(), w))
          for m in ("MIN", "MAX") for w in ("32", "64", "128")]
VERUS = [dict(
    name="numeric_literal_cast",
    uses="use vstd::prelude::*;\nuse vstd::arithmetic::power::*;\n",
    prelude="prelude.rs", proofs="proofs.rs", witness="witness.rs", rlimit=120, min_verified=5, twins=[],
    items=[
        dict(file=F, path=["fn is_supported_numeric_type"], ret="r",
             contract="    ensures r == !(*data_type is Other),"),
        dict(file=F, path=["fn scale_date_literal"], ret="r",
             edits=[dict(rule="R6", regex=r"\(value % MILLIS_PER_DAY == 0\)\.then_some\(value / MILLIS_PER_DAY\)",
                         replace="if value % MILLIS_PER_DAY == 0 { Some(value / MILLIS_PER_DAY) } else { None }", count=1)]),
        dict(file=F, path=["fn decimal_scale_multiplier"], ret="r", optional=True,
             contract="    ensures r is Some ==> scale >= 0 && r->Some_0 as int == p10(scale as nat),"),
        dict(file=F, path=["fn try_cast_numeric_literal"], ret="res",
             edits=TABLES + [
                 dict(rule="R13", regex=r"(\(\*v\)|v) % \(lit_scale_mul / mul\) == 0", replace=r"rem_i128(\1, lit_scale_mul / mul) == 0", count=3),
                 dict(rule="R13", regex=r"Some\((\*?v) / \(lit_scale_mul / mul\)\)", replace=r"Some(div_i128(\1, lit_scale_mul / mul))", count=3),
             ],
             contract="""    requires valid_type(*target_type), valid_type(spec_data_type(*lit_value)),
    ensures
        // a literal is only ever replaced by a literal that denotes exactly the same number
        (res is Some && is_plain(spec_data_type(*lit_value)) && is_plain(*target_type)) ==> exact_cast(*lit_value, *target_type, res->Some_0),""",
             proofs=[dict(at="body_start", text="""
    proof {
        lemma_p10_38();
        let ls = scale_of(spec_data_type(*lit_value));
        let ts = scale_of(*target_type);
        if ts >= 0 { lemma_p10_pos(ts as nat); }
        if ls >= 0 { lemma_p10_pos(ls as nat); }
        if 0 <= ls <= ts { lemma_p10_mono(ls as nat, ts as nat); }
        if 0 <= ts <= ls { lemma_p10_mono(ts as nat, ls as nat); }
        lemma_p10_zero();
    }"""),
                 dict(at="before:    match lit_value_target_type {", text="""
    proof {
        let ls = scale_of(spec_data_type(*lit_value));
        let ts = scale_of(*target_type);
        if lit_value_target_type is Some && is_plain(spec_data_type(*lit_value)) && is_plain(*target_type) {
            assert(unscaled(*lit_value) is Some);
            assert(ls >= 0 && ts >= 0);
            assert(lit_value_target_type->Some_0 as int * p10(ls as nat) == unscaled(*lit_value)->Some_0 * p10(ts as nat));
        }
    }"""),
                 dict(at=r"after_each:let v = \*v as i128;\s*let lit_scale_mul = [^;]*;", count=2, text="""
            proof {
                let ls = *scale as int;
                let ts = scale_of(*target_type);
                lemma_p10_pos(ls as nat);
                if ls <= ts {
                    lemma_p10_mono(ls as nat, ts as nat);
                    vstd::arithmetic::div_mod::lemma_div_multiples_vanish(p10((ts - ls) as nat), p10(ls as nat));
                    assert((p10(ls as nat) * p10((ts - ls) as nat)) / p10(ls as nat) == p10((ts - ls) as nat));
                    lemma_scale_up(v as int, p10((ts - ls) as nat), p10(ls as nat));
                } else {
                    lemma_p10_mono(ts as nat, ls as nat);
                    lemma_p10_strict(ts as nat, ls as nat);
                    lemma_p10_pos((ls - ts) as nat);
                    vstd::arithmetic::div_mod::lemma_div_multiples_vanish(p10((ls - ts) as nat), p10(ts as nat));
                    assert((p10(ts as nat) * p10((ls - ts) as nat)) / p10(ts as nat) == p10((ls - ts) as nat));
                    let k = p10((ls - ts) as nat);
                    let q = trunc_div(v as int, k);
                    if v as int - k * q == 0 { assert(q * k == v as int) by(nonlinear_arith) requires v as int - k * q == 0; lemma_scale_down(q, k, p10(ts as nat), v as int); }
                }
            }"""),
                 dict(at=r"after_each:ScalarValue::Decimal128\(Some\(v\), _, scale\) => \{\s*let lit_scale_mul = [^;]*;", count=1, text="""
            proof {
                let ls = *scale as int;
                let ts = scale_of(*target_type);
                lemma_p10_pos(ls as nat);
                if ls <= ts {
                    lemma_p10_mono(ls as nat, ts as nat);
                    vstd::arithmetic::div_mod::lemma_div_multiples_vanish(p10((ts - ls) as nat), p10(ls as nat));
                    assert((p10(ls as nat) * p10((ts - ls) as nat)) / p10(ls as nat) == p10((ts - ls) as nat));
                    lemma_scale_up(*v as int, p10((ts - ls) as nat), p10(ls as nat));
                } else {
                    lemma_p10_mono(ts as nat, ls as nat);
                    lemma_p10_strict(ts as nat, ls as nat);
                    lemma_p10_pos((ls - ts) as nat);
                    vstd::arithmetic::div_mod::lemma_div_multiples_vanish(p10((ls - ts) as nat), p10(ts as nat));
                    assert((p10(ts as nat) * p10((ls - ts) as nat)) / p10(ts as nat) == p10((ls - ts) as nat));
                    let k = p10((ls - ts) as nat);
                    let q = trunc_div(*v as int, k);
                    if *v as int - k * q == 0 { assert(q * k == *v as int) by(nonlinear_arith) requires *v as int - k * q == 0; lemma_scale_down(q, k, p10(ts as nat), *v as int); }
                }
            }""")]),
    ],
    mutants=[
        dict(name="divisibility_check_dropped", item="try_cast_numeric_literal", find="rem_i128(v, lit_scale_mul / mul) == 0", replace="rem_i128(v, lit_scale_mul / mul) >= 0"),
        dict(name="scale_up_by_full_multiplier", item="try_cast_numeric_literal", find="v.checked_mul(mul / lit_scale_mul)", replace="v.checked_mul(mul)"),
        dict(name="upper_range_check_dropped", item="try_cast_numeric_literal", find="if value >= target_min && value <= target_max {", replace="if value >= target_min {"),
        dict(name="integer_literal_not_scaled", item="try_cast_numeric_literal", find="ScalarValue::Int8(Some(v)) => (*v as i128).checked_mul(mul),", replace="ScalarValue::Int8(Some(v)) => Some(*v as i128),"),
        dict(name="unchecked_power_of_ten", item="decimal_scale_multiplier", find="10_i128.checked_pow(scale as u32)", replace="Some(10_i128.pow(scale as u32))"),
        dict(name="negative_scale_as_zero", item="decimal_scale_multiplier", find="return None;", replace="return Some(1);"),
    ],
)]
_INTS = ["i8", "i16", "i32", "i64", "u8", "u16", "u32", "u64"]
_DECS = ["d32", "d64", "d128", "d256"]
_H = [dict(name="c47_coercion_int_int", complete=True, bound="all 64 pairs of integer types",
           what="binary_numeric_coercion on two integer types: symmetric in its operands, the common type contains both ranges")]
for _d in _DECS:
    for _k in _INTS:
        _H.append(dict(name="c47_coercion_%s_%s" % (_d, _k), complete=True,
                       bound="loop-free: every precision Arrow accepts for the variant, every scale in [-40, p]",
                       what="binary_numeric_coercion(decimal, integer): symmetric; the common type never drops fractional digits, never narrows the integer range silently (integer digits only clamped at the variant's maximum precision, where the cast overflows with an error)"))
for _a in range(4):
    for _b in range(_a, 4):
        _H.append(dict(name="c47_coercion_%s_%s" % (_DECS[_a], _DECS[_b]), complete=True,
                       bound="loop-free: every precision/scale pair Arrow accepts with scales >= -40, minus the pairs on which the i8 precision arithmetic of get_wider_decimal_type overflows (observation O6)",
                       what="binary_numeric_coercion(decimal, decimal): symmetric; scale never reduced, integer digits kept or clamped at the maximum precision"))
_H.append(dict(name="c47_operator_mirror_and_negation", complete=True,
               what="Operator::swap / negate for the eight comparison operators against SQL's three-valued comparison of two nullable i64 values (all values): the mirrored operator on swapped operands gives the same answer, swap is an involution, the negated operator gives the negated answer"))
KANI = [dict(package="datafusion-expr-common", module="expr_common/casts.rs", timeout=900, jobs=8, harnesses=_H)]
TRUSTED = ["Verus 0.2026.09.13 + bundled Z3", "type model of DataType / ScalarValue restricted to the variants the function distinguishes", "assume_specification i128::pow == vstd pow, requires the power to fit",
           "Arrow's MIN/MAX_DECIMAL*_FOR_EACH_PRECISION tables assumed to hold +-(10^p - 1) (R13)", "is_lossy_temporal_cast / cast_between_timestamp opaque"]
ASSUMPTIONS = ["coercion harnesses: decimal scales >= -40; casts inserted by type coercion are non-safe (overflow is an error, DEFAULT_CAST_OPTIONS), so only a dropped fractional digit or a narrower integer range is a silent loss",
               "decimal precisions within Arrow's table sizes", "claim restricted to integer and decimal literals/targets; Date/Timestamp conversions not covered"]
NOT_COVERED = ["comparison coercion for non-numeric types (strings, temporal, dictionaries, nested), floats (inexact by nature), IN lists, joins, the Arrow comparison kernels, unwrap_cast.rs itself", "string / dictionary / binary literal casts", "temporal literal casts"]
EXPLANATION = ""
