// trusted: 64-bit target
global size_of usize == 8;
pub assume_specification[ i128::pow ](b: i128, e: u32) -> (r: i128)
    requires i128::MIN <= pow(b as int, e as nat) <= i128::MAX,
    ensures r as int == pow(b as int, e as nat);
pub assume_specification[ i128::checked_pow ](b: i128, e: u32) -> (r: Option<i128>)
    ensures r == (if i128::MIN <= pow(b as int, e as nat) <= i128::MAX { Some(pow(b as int, e as nat) as i128) } else { None::<i128> });

// ---- type model: exactly the variants try_cast_numeric_literal distinguishes; everything else is `Other` ----
#[derive(Clone, Copy)]
pub struct Tz {}   // Option<Arc<str>> time zone: opaque
pub enum TimeUnit { Second, Millisecond, Microsecond, Nanosecond }
pub enum DataType {
    UInt8, UInt16, UInt32, UInt64, Int8, Int16, Int32, Int64, Date32, Date64,
    Timestamp(TimeUnit, Tz), Decimal32(u8, i8), Decimal64(u8, i8), Decimal128(u8, i8), Other,
}
pub enum ScalarValue {
    Int8(Option<i8>), Int16(Option<i16>), Int32(Option<i32>), Int64(Option<i64>),
    UInt8(Option<u8>), UInt16(Option<u16>), UInt32(Option<u32>), UInt64(Option<u64>),
    Date32(Option<i32>), Date64(Option<i64>),
    TimestampSecond(Option<i64>, Tz), TimestampMillisecond(Option<i64>, Tz),
    TimestampMicrosecond(Option<i64>, Tz), TimestampNanosecond(Option<i64>, Tz),
    Decimal32(Option<i32>, u8, i8), Decimal64(Option<i64>, u8, i8), Decimal128(Option<i128>, u8, i8),
    Other,
}
pub open spec fn spec_data_type(v: ScalarValue) -> DataType {
    match v {
        ScalarValue::Int8(_) => DataType::Int8, ScalarValue::Int16(_) => DataType::Int16,
        ScalarValue::Int32(_) => DataType::Int32, ScalarValue::Int64(_) => DataType::Int64,
        ScalarValue::UInt8(_) => DataType::UInt8, ScalarValue::UInt16(_) => DataType::UInt16,
        ScalarValue::UInt32(_) => DataType::UInt32, ScalarValue::UInt64(_) => DataType::UInt64,
        ScalarValue::Date32(_) => DataType::Date32, ScalarValue::Date64(_) => DataType::Date64,
        ScalarValue::TimestampSecond(_, tz) => DataType::Timestamp(TimeUnit::Second, tz),
        ScalarValue::TimestampMillisecond(_, tz) => DataType::Timestamp(TimeUnit::Millisecond, tz),
        ScalarValue::TimestampMicrosecond(_, tz) => DataType::Timestamp(TimeUnit::Microsecond, tz),
        ScalarValue::TimestampNanosecond(_, tz) => DataType::Timestamp(TimeUnit::Nanosecond, tz),
        ScalarValue::Decimal32(_, p, s) => DataType::Decimal32(p, s),
        ScalarValue::Decimal64(_, p, s) => DataType::Decimal64(p, s),
        ScalarValue::Decimal128(_, p, s) => DataType::Decimal128(p, s),
        ScalarValue::Other => DataType::Other,
    }
}
impl ScalarValue {
    #[verifier::external_body]
    pub fn data_type(&self) -> (r: DataType) ensures r == spec_data_type(*self) { unimplemented!() }
}
// temporal helpers: opaque (Date/Timestamp conversions are not part of the claim)
#[verifier::external_body]
fn is_lossy_temporal_cast(from_type: &DataType, to_type: &DataType) -> bool { unimplemented!() }
#[verifier::external_body]
fn cast_between_timestamp(from: &DataType, to: &DataType, value: i128) -> Option<i64> { unimplemented!() }
pub const MILLISECONDS_IN_DAY: i64 = 86_400_000;

// R13: Arrow's per-precision range tables (index = precision), assumed to hold +-(10^p - 1)
pub open spec fn p10(n: nat) -> int { pow(10, n) }
#[verifier::external_body]
fn max_dec32(p: u8) -> (r: i32) requires p <= 9 ensures r as int == p10(p as nat) - 1 { unimplemented!() }
#[verifier::external_body]
fn min_dec32(p: u8) -> (r: i32) requires p <= 9 ensures r as int == 1 - p10(p as nat) { unimplemented!() }
#[verifier::external_body]
fn max_dec64(p: u8) -> (r: i64) requires p <= 18 ensures r as int == p10(p as nat) - 1 { unimplemented!() }
#[verifier::external_body]
fn min_dec64(p: u8) -> (r: i64) requires p <= 18 ensures r as int == 1 - p10(p as nat) { unimplemented!() }
#[verifier::external_body]
fn max_dec128(p: u8) -> (r: i128) requires p <= 38 ensures r as int == p10(p as nat) - 1 { unimplemented!() }
#[verifier::external_body]
fn min_dec128(p: u8) -> (r: i128) requires p <= 38 ensures r as int == 1 - p10(p as nat) { unimplemented!() }

// R13: Rust's signed `/` and `%` (truncating) are not specified by the installed Verus; the three scale-down arms
// use these two functions instead, specified with the Rust reference semantics for a positive divisor
pub open spec fn trunc_div(a: int, b: int) -> int { if a >= 0 { a / b } else { -((-a) / b) } }
#[verifier::external_body]
fn div_i128(a: i128, b: i128) -> (r: i128) requires b > 0 ensures r as int == trunc_div(a as int, b as int) { a / b }
#[verifier::external_body]
fn rem_i128(a: i128, b: i128) -> (r: i128) requires b > 0 ensures r as int == a as int - b as int * trunc_div(a as int, b as int) { a % b }
