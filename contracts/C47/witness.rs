fn witness_cast() {
    let r = try_cast_numeric_literal(&ScalarValue::Int32(Some(5)), &DataType::Decimal128(10, 2));
    //@MUSTFAIL
}
