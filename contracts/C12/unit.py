"""C12 (partial) — row hashes depend only on the logical value: the float kernel (HashValue for f32 / f64)."""
LEVEL = "proof"
VERUS = []
KANI = [dict(package="datafusion-common", module="common/utils.rs", timeout=900, harnesses=[
    dict(name="c12_hash_f64_agrees_with_equality", complete=True,
         what="<f64 as HashValue>::{hash_one, hash_write} against a recording hasher, all pairs of bit patterns: a == b (incl. +0.0 / -0.0) => same data hashed; distinct non-NaN values => different data; hash_write feeds the same bytes as hash_one"),
    dict(name="c12_hash_f32_agrees_with_equality", complete=True, what="the same for f32"),
])]
TRUSTED = ["Kani 0.68 / CBMC 6.11 (IEEE-754 comparison semantics of CBMC's float theory)",
           "the hasher is replaced by a recorder (returns / stores exactly the bytes written): what is proved is which DATA reaches the hasher, for any BuildHasher"]
ASSUMPTIONS = ["half::f16 uses the same macro arm (hash_float_value!) but is not exercised"]
NOT_COVERED = ["every layout-related clause of C12: slice offsets, validity buffers, dictionary / run-end / string-view / list layouts, child values under NULL parents (Arrow arrays are outside both verifiers)",
               "create_hashes / with_hashes buffers, combine_hashes chains over several columns, ScalarValue::hash"]
EXPLANATION = "The scalar hashing kernel for floats: values that compare equal (notably -0.0 and +0.0) feed identical data to the hasher and no two different non-NaN values do, for every bit pattern."
