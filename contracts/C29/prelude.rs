// trusted: 64-bit target
global size_of usize == 8;
pub struct DataFusionError {}
pub type Result<T> = core::result::Result<T, DataFusionError>;
/// opaque: the truncated function (R14) never looks inside column statistics
pub struct ColumnStatistics {}
/// R13: stands for `fetch.and_then(|v| v.checked_mul(n_partitions))`
pub fn fetch_times_partitions(fetch: Option<usize>, n_partitions: usize) -> (r: Option<usize>)
    ensures r == (match fetch { Some(v) => if v as int * n_partitions as int <= usize::MAX { Some((v as int * n_partitions as int) as usize) } else { None }, None => None }),
{
    match fetch { Some(v) => v.checked_mul(n_partitions), None => None }
}
