"""C29 — statistics reported as exact are exact: the Precision algebra and Statistics::with_fetch."""
LEVEL = "proof"
F = "datafusion/common/src/stats.rs"
NOBOUNDS = dict(rule="R3", find="<T: Debug + Clone + PartialEq + Eq + PartialOrd>", replace="<T>", count=1)
VERUS = [dict(
    name="with_fetch_rows",
    uses="use vstd::prelude::*;\n",
    prelude="prelude.rs", proofs="proofs.rs", witness="witness.rs", rlimit=60, min_verified=5,
    twins=["c29_with_fetch_rows_partitions", "c29_with_fetch_single_partition"], twin_timeout=600,
    items=[
        dict(file=F, path=["enum Precision"], prefix="#[derive(Clone, Copy)]\n", edits=[NOBOUNDS]),
        dict(file=F, path=["impl<T: Debug + Clone + PartialEq + Eq + PartialOrd> Precision<T>", "fn is_exact"], wrap="impl<T> Precision<T>", ret="r",
             contract="    ensures r == (match *self { Precision::Exact(_) => Some(true), Precision::Inexact(_) => Some(false), Precision::Absent => None }),"),
        dict(file=F, path=["fn check_num_rows"], ret="r",
             contract="    ensures r == (match value { Some(v) => if is_exact { Precision::Exact(v) } else { Precision::Inexact(v) }, None => Precision::Absent }),"),
        dict(file=F, path=["struct Statistics"]),
        dict(file=F, path=["impl Statistics", "fn with_fetch"], wrap="impl Statistics", ret="res",
             # R17: `mut self` (unsupported) -> by-value parameter `self_in` moved into a local `this`; every `self` token renamed
             edits=[dict(rule="R13", find="fetch.and_then(|v| v.checked_mul(n_partitions))", replace="fetch_times_partitions(fetch, n_partitions)"),
                    dict(rule="R17", find="        mut self,\n", replace="        self_in: Self,\n"),
                    dict(rule="R17", regex=r"\bself\b", replace="this", count="any"),
                    dict(rule="R17", find=") -> Result<Self> {\n", replace=") -> Result<Self> {\n        let mut this = self_in;\n")],
             truncate_at=dict(anchor="        let ratio: Option<f64> = match (num_rows_before, this.num_rows) {",
                              dropped_must_not_contain=["this.num_rows =", "num_rows:"],
                              tail="""        proof {
            let nr = self_in.num_rows;
            let np = n_partitions as int;
            if !identity_case(nr, fetch, skip) {
                match nr {
                    Precision::Exact(n) => {
                        let e = rows_emitted(n as int, fetch, skip as int);
                        if n <= skip { assert(e == 0); assert(e * np == 0) by(nonlinear_arith) requires e == 0; }
                        else if (n - skip) as int <= fetch_val as int { assert(e == n - skip); }
                        else { assert(e == fetch_val as int); }
                        assert(this.num_rows == spec_rows(nr, fetch, skip, np));
                    }
                    Precision::Inexact(n) => {
                        let e = rows_emitted(n as int, fetch, skip as int);
                        if n <= skip { assert(e == 0); assert(e * np == 0) by(nonlinear_arith) requires e == 0; }
                        else if (n - skip) as int <= fetch_val as int { assert(e == n - skip); }
                        else { assert(e == fetch_val as int); }
                        assert(this.num_rows == spec_rows(nr, fetch, skip, np));
                    }
                    Precision::Absent => { assert(this.num_rows == spec_rows(nr, fetch, skip, np)); }
                }
            }
        }
        Ok(this)
    }"""),
             contract="""    requires n_partitions >= 1,
    ensures res is Ok,
        // untouched / identity cases hand the input back
        identity_case(self_in.num_rows, fetch, skip) ==> res->Ok_0 == self_in,
        // every other case: the row count is exactly the specified one (see lemma_exact_is_exact for the property)
        !identity_case(self_in.num_rows, fetch, skip) ==> res->Ok_0.num_rows == spec_rows(self_in.num_rows, fetch, skip, n_partitions as int),
        // frame: the truncated prefix touches nothing but num_rows
        res->Ok_0.total_byte_size == self_in.total_byte_size, res->Ok_0.column_statistics == self_in.column_statistics,"""),
    ],
    mutants=[
        dict(name="skip_ignored_in_remaining", item="with_fetch", find="(nr - skip).checked_mul(n_partitions)", replace="nr.checked_mul(n_partitions)"),
        # (`nr - skip < fetch_val` is an EQUIVALENT mutant: at equality both branches return the same count; it was accepted, rightly)
        dict(name="fetch_compare_ignores_skip", item="with_fetch", find="} else if nr - skip <= fetch_val {", replace="} else if nr <= fetch_val {"),
        dict(name="zero_rows_exact_for_inexact", item="with_fetch", find="check_num_rows(Some(0), this.num_rows.is_exact().unwrap())", replace="check_num_rows(Some(0), true)"),
        dict(name="absent_becomes_exact", item="with_fetch", find="fetch_times_partitions(fetch, n_partitions), false)", replace="fetch_times_partitions(fetch, n_partitions), true)"),
        dict(name="check_num_rows_always_exact", item="check_num_rows", find="Precision::Inexact(value)", replace="Precision::Exact(value)"),
    ],
)]
M = "common/stats.rs"
# ------------------------------------------------------------------------------------------
# Precision<ScalarValue> arithmetic (min / max / sum statistics): the exactness algebra over a type model of ScalarValue
# ------------------------------------------------------------------------------------------
IS = "impl Precision<ScalarValue>"
def _arith(name, callee, sym):
    return dict(file=F, path=[IS, "fn %s" % name], wrap=IS, ret="r",
                edits=[dict(rule="R6", regex=r"a\s*\.%s\(b\)\s*\.map\(Precision::(Exact|Inexact)\)\s*\.unwrap_or\(Precision::Absent\)" % callee,
                            replace=r"match a.%s(b) { Ok(v_) => Precision::\1(v_), Err(_) => Precision::Absent }" % callee, count=2)],
                contract="""    ensures exact_is_exact(*self, *other, r, |x: int, y: int| x %s y),""" % sym)
VERUS.append(dict(
    name="precision_scalar",
    uses="use vstd::prelude::*;\n",
    prelude="prelude_scalar.rs", proofs="proofs_scalar.rs", witness="witness_scalar.rs", rlimit=60, min_verified=3, twins=[], std_specs=False,
    items=[
        dict(file=F, path=["enum Precision"], prefix="#[derive(Clone, Copy)]\n", edits=[NOBOUNDS]),
        _arith("add", "add_checked", "+"), _arith("sub", "sub", "-"), _arith("multiply", "mul_checked", "*"),
    ],
    mutants=[
        dict(name="scalar_add_mixed_is_exact", item="add", find="Ok(v_) => Precision::Inexact(v_)", replace="Ok(v_) => Precision::Exact(v_)"),
        dict(name="scalar_sub_absent_operand_ignored", item="sub", find="(_, _) => Precision::Absent,", replace="(_, _) => *self,"),
        dict(name="scalar_multiply_uses_add", item="multiply", find="a.mul_checked(b)", replace="a.add_checked(b)"),
    ],
))
KANI = [dict(package="datafusion-common", module=M, timeout=900, harnesses=[
    dict(name="c29_add", complete=True, what="Precision<usize>::add, full usize x usize x 3x3 variants: Exact only for Exact+Exact without overflow and then the true sum; Absent absorbs; otherwise Inexact(saturated)"),
    dict(name="c29_sub", complete=True, what="Precision<usize>::sub, same contract with checked_sub"),
    dict(name="c29_multiply", complete=True, what="Precision<usize>::multiply, same contract, full 64x64->128 bit domain"),
    dict(name="c29_min_max_to_inexact", complete=True, what="Precision::<usize>::{min,max,to_inexact,is_exact,get_value}: Exact only from two Exact inputs and equal to the true min/max"),
    dict(name="c29_selectivity", complete=True, what="with_estimated_selectivity: only Exact(0) stays Exact (selectivity from {0,0.5,1}; float value irrelevant to exactness)"),
    dict(name="c29_with_fetch_single_partition", complete=True, thorough_only=True, what="Statistics::with_fetch with no columns, full domain of (num_rows, fetch, skip, n_partitions): Exact(v) => input Exact and v == rows LIMIT/OFFSET emits (n_partitions==1) / unwrapped product (n_partitions>1)"),
    dict(name="c29_with_fetch_rows_partitions", complete=True, twin_only=True, what="with_fetch, symbolic n_partitions: used as counterexample finder (twin of the Verus unit); proving it does not finish (float division)"),
    dict(name="c29_with_fetch_one_column_bounded", complete=False, twin_only=True, bound="1 column (column loop), byte sizes Absent", what="with_fetch: when rows are cut no column statistic stays Exact, NDV <= rows; identity case keeps columns"),
])]
TRUSTED = ["Kani 0.68 / CBMC 6.11", "std::fmt::format stubbed (error text opaque)", "precision_scalar: type model of ScalarValue (Int64, Other); ScalarValue::{add_checked, sub, mul_checked} behind assumed contracts (Ok only with the mathematical result); `X.map(Precision::V).unwrap_or(Absent)` written as the match it abbreviates (R6)"]
ASSUMPTIONS = ["n_partitions >= 1", "column byte_size / total_byte_size Absent in the with_fetch harnesses (f64 ratio scaling never yields Exact; sliced away)",
               "Precision<ScalarValue> arithmetic (Arrow kernels) not covered"]
NOT_COVERED = ["per-operator statistics propagation (joins, filters, parquet metadata, aggregate_statistics rewrite)", "Precision<ScalarValue>", "try_merge_iter, project"]
EXPLANATION = "Complete (full-domain, loop-free) proofs that the Precision<usize> algebra and the LIMIT/OFFSET row-count rule never report Exact for a value that is not the true one."
