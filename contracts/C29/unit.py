"""C29 — statistics reported as exact are exact: the Precision algebra and Statistics::with_fetch."""
LEVEL = "proof"
VERUS = []
M = "common/stats.rs"
KANI = [dict(package="datafusion-common", module=M, timeout=3000, harnesses=[
    dict(name="c29_add", complete=True, what="Precision<usize>::add, full usize x usize x 3x3 variants: Exact only for Exact+Exact without overflow and then the true sum; Absent absorbs; otherwise Inexact(saturated)"),
    dict(name="c29_sub", complete=True, what="Precision<usize>::sub, same contract with checked_sub"),
    dict(name="c29_multiply", complete=True, what="Precision<usize>::multiply, same contract, full 64x64->128 bit domain"),
    dict(name="c29_min_max_to_inexact", complete=True, what="Precision::<usize>::{min,max,to_inexact,is_exact,get_value}: Exact only from two Exact inputs and equal to the true min/max"),
    dict(name="c29_selectivity", complete=True, what="with_estimated_selectivity: only Exact(0) stays Exact (selectivity from {0,0.5,1}; float value irrelevant to exactness)"),
    dict(name="c29_with_fetch_rows", complete=True, what="Statistics::with_fetch with no columns, full domain of (num_rows, fetch, skip, n_partitions): Exact(v) => input Exact and v == rows LIMIT/OFFSET emits (n_partitions==1) / unwrapped product (n_partitions>1)"),
    dict(name="c29_with_fetch_one_column_bounded", complete=False, bound="1 column (column loop), byte sizes Absent", what="with_fetch: when rows are cut no column statistic stays Exact, NDV <= rows; identity case keeps columns"),
])]
TRUSTED = ["Kani 0.68 / CBMC 6.11", "std::fmt::format stubbed (error text opaque)"]
ASSUMPTIONS = ["n_partitions >= 1", "column byte_size / total_byte_size Absent in the with_fetch harnesses (f64 ratio scaling never yields Exact; sliced away)",
               "Precision<ScalarValue> arithmetic (Arrow kernels) not covered"]
NOT_COVERED = ["per-operator statistics propagation (joins, filters, parquet metadata, aggregate_statistics rewrite)", "Precision<ScalarValue>", "try_merge_iter, project"]
EXPLANATION = "Complete (full-domain, loop-free) proofs that the Precision<usize> algebra and the LIMIT/OFFSET row-count rule never report Exact for a value that is not the true one."
