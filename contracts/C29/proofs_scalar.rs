/// THE PROPERTY for one binary statistic operation: a result reported Exact comes from two Exact operands and (for integer
/// statistics) is the mathematical result; Absent operands give Absent; an Inexact operand never yields Exact
spec fn exact_is_exact(a: Precision<ScalarValue>, b: Precision<ScalarValue>, r: Precision<ScalarValue>, f: spec_fn(int, int) -> int) -> bool {
    &&& (a is Absent || b is Absent) ==> r is Absent
    &&& r is Exact ==> a is Exact && b is Exact
            && ((int_of(a->Exact_0) is Some && int_of(b->Exact_0) is Some) ==> int_of(r->Exact_0) == Some(f(int_of(a->Exact_0)->Some_0, int_of(b->Exact_0)->Some_0)))
    &&& (r is Inexact && a !is Absent && b !is Absent) ==> ({
            let x = if a is Exact { a->Exact_0 } else { a->Inexact_0 }; let y = if b is Exact { b->Exact_0 } else { b->Inexact_0 };
            (int_of(x) is Some && int_of(y) is Some) ==> int_of(r->Inexact_0) == Some(f(int_of(x)->Some_0, int_of(y)->Some_0)) })
}
