fn witness_add() {
    let a = Precision::Exact(ScalarValue::Int64(Some(3)));
    let b = Precision::Inexact(ScalarValue::Int64(Some(4)));
    let r = a.add(&b);
    //@MUSTFAIL
}
