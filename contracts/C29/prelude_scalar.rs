// type model of ScalarValue for statistics arithmetic: one integer variant (Int64) and everything else
#[derive(PartialEq, Eq, Structural, Clone, Copy)]
pub enum ScalarValue { Int64(Option<i64>), Other }
pub struct DataFusionError {}
pub type Result<T> = core::result::Result<T, DataFusionError>;
pub open spec fn int_of(v: ScalarValue) -> Option<int> { match v { ScalarValue::Int64(Some(x)) => Some(x as int), _ => None } }
/// ASSUMED contracts of ScalarValue::{add_checked, sub, mul_checked} for two non-NULL Int64 values: Ok(r) only with r the
/// mathematical result (overflow is an error); for anything else nothing is promised
impl ScalarValue {
    #[verifier::external_body]
    pub fn add_checked(&self, other: &ScalarValue) -> (r: Result<ScalarValue>)
        ensures (int_of(*self) is Some && int_of(*other) is Some && r is Ok) ==> int_of(r->Ok_0) == Some(int_of(*self)->Some_0 + int_of(*other)->Some_0),
    { unimplemented!() }
    #[verifier::external_body]
    pub fn sub(&self, other: &ScalarValue) -> (r: Result<ScalarValue>)
        ensures (int_of(*self) is Some && int_of(*other) is Some && r is Ok) ==> int_of(r->Ok_0) == Some(int_of(*self)->Some_0 - int_of(*other)->Some_0),
    { unimplemented!() }
    #[verifier::external_body]
    pub fn mul_checked(&self, other: &ScalarValue) -> (r: Result<ScalarValue>)
        ensures (int_of(*self) is Some && int_of(*other) is Some && r is Ok) ==> int_of(r->Ok_0) == Some(int_of(*self)->Some_0 * int_of(*other)->Some_0),
    { unimplemented!() }
}
