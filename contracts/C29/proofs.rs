spec fn min_int(a: int, b: int) -> int { if a <= b { a } else { b } }
/// rows a LIMIT fetch OFFSET skip emits from an input of n rows
spec fn rows_emitted(n: int, fetch: Option<usize>, skip: int) -> int {
    let remaining = if n >= skip { n - skip } else { 0 };
    match fetch { Some(f) => min_int(remaining, f as int), None => remaining }
}
/// the input statistics are passed through unchanged
spec fn identity_case(nr: Precision<usize>, fetch: Option<usize>, skip: usize) -> bool {
    (fetch is None && skip == 0) || (skip == 0 && match nr {
        Precision::Exact(n) | Precision::Inexact(n) => n > 0 && (fetch is None || n <= fetch->Some_0),
        Precision::Absent => false,
    })
}
/// specification of the row-count statistic after LIMIT/OFFSET in the non-identity cases
spec fn spec_rows(nr: Precision<usize>, fetch: Option<usize>, skip: usize, np: int) -> Precision<usize> {
    match nr {
        Precision::Exact(n) => { let v = rows_emitted(n as int, fetch, skip as int) * np;
            if v <= usize::MAX { Precision::Exact(v as usize) } else { Precision::Absent } },
        Precision::Inexact(n) => { let v = rows_emitted(n as int, fetch, skip as int) * np;
            if v <= usize::MAX { Precision::Inexact(v as usize) } else { Precision::Absent } },
        Precision::Absent => match fetch {
            Some(f) => if f as int * np <= usize::MAX { Precision::Inexact((f as int * np) as usize) } else { Precision::Absent },
            None => Precision::Absent },
    }
}
/// THE PROPERTY as a corollary of the specification: a row count reported as exact is exact
/// (exact input, and exactly the rows LIMIT/OFFSET emits, scaled to the partition count, unwrapped)
proof fn lemma_exact_is_exact(nr: Precision<usize>, fetch: Option<usize>, skip: usize, np: int)
    requires np >= 1, spec_rows(nr, fetch, skip, np) is Exact,
    ensures nr is Exact,
            spec_rows(nr, fetch, skip, np)->Exact_0 as int == rows_emitted(nr->Exact_0 as int, fetch, skip as int) * np,
            np == 1 ==> spec_rows(nr, fetch, skip, np)->Exact_0 as int == rows_emitted(nr->Exact_0 as int, fetch, skip as int),
{
    if nr is Exact {
        let e = rows_emitted(nr->Exact_0 as int, fetch, skip as int);
        assert(np == 1 ==> e * np == e) by(nonlinear_arith);
    }
}
