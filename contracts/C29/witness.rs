fn witness_fetch() {
    let s = Statistics { num_rows: Precision::Exact(10), total_byte_size: Precision::Absent, column_statistics: Vec::new() };
    let r = Statistics::with_fetch(s, Some(3), 2, 1);
    //@MUSTFAIL
}
