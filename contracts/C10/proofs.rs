/// what validate_range_split_points enforces at construction
spec fn strictly_sorted(sp: Seq<SplitPoint>, o: Seq<SortOptions>) -> bool {
    forall|i: int, j: int| 0 <= i < j < sp.len() ==> cmp(sp[i].v@, sp[j].v@, o) < 0
}
/// number of split points among the first n that are <= row  (the partition id is count_le(.., len))
spec fn count_le(row: Seq<ScalarValue>, sp: Seq<SplitPoint>, o: Seq<SortOptions>, n: int) -> int
    decreases n
{
    if n <= 0 { 0 } else { count_le(row, sp, o, n - 1) + (if cmp(row, sp[n - 1].v@, o) >= 0 { 1int } else { 0int }) }
}
proof fn lemma_count(row: Seq<ScalarValue>, sp: Seq<SplitPoint>, o: Seq<SortOptions>, r: int, n: int)
    requires 0 <= r <= sp.len(), 0 <= n <= sp.len(),
             forall|i: int| 0 <= i < r ==> cmp(row, sp[i].v@, o) >= 0,
             forall|i: int| r <= i < sp.len() ==> cmp(row, sp[i].v@, o) < 0,
    ensures count_le(row, sp, o, n) == (if n <= r { n } else { r }),
    decreases n
{
    if n > 0 { lemma_count(row, sp, o, r, n - 1); }
}
spec fn pid(row: Seq<ScalarValue>, sp: Seq<SplitPoint>, o: Seq<SortOptions>) -> int { count_le(row, sp, o, sp.len() as int) }
proof fn lemma_pid_range(row: Seq<ScalarValue>, sp: Seq<SplitPoint>, o: Seq<SortOptions>, n: int)
    requires 0 <= n <= sp.len(),
    ensures 0 <= count_le(row, sp, o, n) <= n,
    decreases n
{
    if n > 0 { lemma_pid_range(row, sp, o, n - 1); }
}

/// rows 0..i of the batch that belong to output partition p, in increasing row order
spec fn routed(arrays: Seq<ArrayRef>, sp: Seq<SplitPoint>, o: Seq<SortOptions>, p: int, i: int) -> Seq<u32>
    decreases i
{
    if i <= 0 { Seq::empty() }
    else {
        let prev = routed(arrays, sp, o, p, i - 1);
        if pid(row_at(arrays, i - 1), sp, o) == p { prev.push((i - 1) as u32) } else { prev }
    }
}
/// exactly-once corollaries of the view (same shape as for hash routing)
proof fn lemma_routed_sound(arrays: Seq<ArrayRef>, sp: Seq<SplitPoint>, o: Seq<SortOptions>, p: int, n: int)
    requires 0 <= n <= u32::MAX,
    ensures
        forall|w: int| 0 <= w < routed(arrays, sp, o, p, n).len() ==>
            0 <= (#[trigger] routed(arrays, sp, o, p, n)[w]) < n && pid(row_at(arrays, routed(arrays, sp, o, p, n)[w] as int), sp, o) == p,
        forall|v: int, w: int| 0 <= v < w < routed(arrays, sp, o, p, n).len() ==> routed(arrays, sp, o, p, n)[v] < routed(arrays, sp, o, p, n)[w],
    decreases n
{
    if n > 0 {
        lemma_routed_sound(arrays, sp, o, p, n - 1);
        let prev = routed(arrays, sp, o, p, n - 1);
        let cur = routed(arrays, sp, o, p, n);
        if pid(row_at(arrays, n - 1), sp, o) == p {
            assert(cur == prev.push((n - 1) as u32));
            assert forall|w: int| 0 <= w < cur.len() implies
                0 <= (#[trigger] cur[w]) < n && pid(row_at(arrays, cur[w] as int), sp, o) == p by {
                if w < prev.len() { assert(cur[w] == prev[w]); } else { assert(cur[w] == (n - 1) as u32); }
            }
            assert forall|v: int, w: int| 0 <= v < w < cur.len() implies cur[v] < cur[w] by {
                assert(cur[v] == prev[v]);
                if w < prev.len() { assert(cur[w] == prev[w]); } else { assert(prev[v] < n - 1); }
            }
        } else { assert(cur == prev); }
    }
}
proof fn lemma_routed_contains(arrays: Seq<ArrayRef>, sp: Seq<SplitPoint>, o: Seq<SortOptions>, n: int, j: int)
    requires 0 <= j < n <= u32::MAX,
    ensures routed(arrays, sp, o, pid(row_at(arrays, j), sp, o), n).contains(j as u32),
    decreases n
{
    let p = pid(row_at(arrays, j), sp, o);
    let prev = routed(arrays, sp, o, p, n - 1);
    if j == n - 1 {
        assert(prev.push(j as u32)[prev.len() as int] == j as u32);
    } else {
        lemma_routed_contains(arrays, sp, o, n - 1, j);
        let w = choose|w: int| 0 <= w < prev.len() && prev[w] == j as u32;
        if pid(row_at(arrays, n - 1), sp, o) == p { assert(prev.push((n - 1) as u32)[w] == j as u32); }
    }
}
