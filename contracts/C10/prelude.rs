// trusted: 64-bit target
global size_of usize == 8;
// opaque dependency types
pub struct ScalarValue {}
pub struct SortOptions {}
pub struct ArrayRef {}            // arrow's ArrayRef = Arc<dyn Array>
pub struct DataFusionError {}
pub type Result<T> = core::result::Result<T, DataFusionError>;
pub struct SplitPoint { pub v: Vec<ScalarValue> }
impl SplitPoint {
    #[verifier::external_body]
    pub fn values(&self) -> (r: &[ScalarValue]) ensures r@ == self.v@ { &self.v }
}
/// abstract row comparison under the sort options: -1 / 0 / 1
pub uninterp spec fn cmp(a: Seq<ScalarValue>, b: Seq<ScalarValue>, o: Seq<SortOptions>) -> int;
pub open spec fn ord_int(o: Ordering) -> int { match o { Ordering::Less => -1, Ordering::Equal => 0, Ordering::Greater => 1 } }
/// assumed: compare_rows is a total pre-order on the keys that occur (transitivity in the two shapes needed)
#[verifier::external_body]
pub proof fn cmp_trans(a: Seq<ScalarValue>, b: Seq<ScalarValue>, c: Seq<ScalarValue>, o: Seq<SortOptions>)
    ensures cmp(a, b, o) < 0 && cmp(b, c, o) < 0 ==> cmp(a, c, o) < 0,
            cmp(a, b, o) >= 0 && cmp(c, b, o) < 0 ==> cmp(a, c, o) >= 0,
{}
#[verifier::external_body]
pub fn compare_rows(a: &[ScalarValue], b: &[ScalarValue], o: &[SortOptions]) -> (r: Result<Ordering>)
    ensures r is Ok ==> ord_int(r->Ok_0) == cmp(a@, b@, o@)
{ unimplemented!() }
/// abstract view of a batch of key columns
pub uninterp spec fn arrays_rows(arrays: Seq<ArrayRef>) -> int;
pub uninterp spec fn row_at(arrays: Seq<ArrayRef>, i: int) -> Seq<ScalarValue>;
/// R13: stands for `arrays.first().map(|a| a.len()).unwrap_or(0)`
#[verifier::external_body]
pub fn first_len_or_zero(arrays: &[ArrayRef]) -> (n: usize) ensures n as int == arrays_rows(arrays@) { unimplemented!() }
#[verifier::external_body]
pub fn extract_row_at_idx_to_buf(columns: &[ArrayRef], idx: usize, buf: &mut Vec<ScalarValue>) -> (r: Result<()>)
    ensures r is Ok ==> final(buf)@ == row_at(columns@, idx as int)
{ unimplemented!() }
// the owning type of the associated function (its fields are not touched by the routing functions)
pub struct BatchPartitioner {}
