// trusted: 64-bit target
global size_of usize == 8;
#[verifier::external_body]
pub struct DataFusionError { _p: u8 }
pub type Result<T> = std::result::Result<T, DataFusionError>;
#[verifier::external_body]
pub struct ArrayRef { _p: u8 }
#[verifier::external_body]
pub struct PhysicalExprRef { _p: u8 }
#[verifier::external_body]
pub struct RandomState { _p: u8 }
#[verifier::external_body]
pub struct RecordBatch { _p: u8 }
impl RecordBatch {
    pub uninterp spec fn rows(&self) -> nat;
    #[verifier::external_body]
    pub fn num_rows(&self) -> (r: usize) ensures r == self.rows() { unimplemented!() }
}
/// THE key hash of every row of the batch (what create_hashes computes into a zeroed buffer): the only thing the
/// routing is allowed to depend on
pub uninterp spec fn key_hashes(exprs: Seq<PhysicalExprRef>, batch: RecordBatch) -> Seq<u64>;
pub uninterp spec fn arrays_of(arrays: Seq<ArrayRef>, exprs: Seq<PhysicalExprRef>, batch: RecordBatch) -> bool;

#[verifier::external_body]
pub fn evaluate_expressions_to_arrays(exprs: &[PhysicalExprRef], batch: &RecordBatch) -> (r: Result<Vec<ArrayRef>>)
    ensures r is Ok ==> arrays_of(r->Ok_0@, exprs@, *batch),
{ unimplemented!() }
/// R13: stands for `REPARTITION_RANDOM_STATE.random_state()`
#[verifier::external_body]
pub fn repartition_random_state() -> (r: &'static RandomState) { unimplemented!() }

/// ASSUMED contract of datafusion_common::hash_utils::create_hashes: the number of rows hashed is the buffer length and
/// each column's hash is COMBINED into the slot (NULL slots are left untouched), so the result is the key hash of the batch
/// only when the buffer has one zeroed slot per row
#[verifier::external_body]
pub fn create_hashes(arrays: &Vec<ArrayRef>, random_state: &RandomState, hashes_buffer: &mut Vec<u64>) -> (r: Result<()>)
    requires
        forall|i: int| 0 <= i < old(hashes_buffer)@.len() ==> old(hashes_buffer)@[i] == 0,
    ensures
        final(hashes_buffer)@.len() == old(hashes_buffer)@.len(),
        r is Ok ==> forall|exprs: Seq<PhysicalExprRef>, batch: RecordBatch| #[trigger] arrays_of(arrays@, exprs, batch) && batch.rows() == old(hashes_buffer)@.len()
                        ==> final(hashes_buffer)@ == key_hashes(exprs, batch),
{ unimplemented!() }

/// rows j < upto of `hashes` routed to bucket p of n, as u32 row indices in row order
pub open spec fn routed(hashes: Seq<u64>, n: int, p: int, upto: int) -> Seq<u32>
    decreases upto
{
    if upto <= 0 { Seq::empty() }
    else if (hashes[upto - 1] as int) % n == p { routed(hashes, n, p, upto - 1).push((upto - 1) as u32) }
    else { routed(hashes, n, p, upto - 1) }
}
#[verifier::external_body]
pub struct StrengthReducedU64 { _p: u8 }
impl StrengthReducedU64 {
    pub uninterp spec fn divisor(&self) -> u64;
    /// contract PROVED in unit C11 `strength_reduced` (here restated, not re-proved)
    #[verifier::external_body]
    pub fn partition_indices(&self, hash_buffer: &[u64], indices: &mut [Vec<u32>])
        requires old(indices)@.len() >= 1, self.divisor() == old(indices)@.len(), hash_buffer@.len() <= u32::MAX,
        ensures final(indices)@.len() == old(indices)@.len(),
            forall|p: int| 0 <= p < old(indices)@.len() ==>
                (#[trigger] final(indices)@[p])@ == old(indices)@[p]@ + routed(hash_buffer@, old(indices)@.len() as int, p, hash_buffer@.len() as int),
    { unimplemented!() }
}
/// R13: stands for `for v in indices.iter_mut() { v.clear(); }`
#[verifier::external_body]
pub fn clear_all(indices: &mut Vec<Vec<u32>>)
    ensures final(indices)@.len() == old(indices)@.len(), forall|p: int| 0 <= p < final(indices)@.len() ==> (#[trigger] final(indices)@[p])@.len() == 0,
{ unimplemented!() }

// ---- range arm ----
#[verifier::external_body]
pub struct SplitPoint { _p: u8 }
#[verifier::external_body]
pub struct SortOptions { _p: u8 }
#[verifier::external_body]
pub struct ScalarValue { _p: u8 }
/// rows < upto of `arrays` whose range-partition id is p, as u32 row indices in row order (defined in unit range_routing)
pub uninterp spec fn range_routed(arrays: Seq<ArrayRef>, split_points: Seq<SplitPoint>, sort_options: Seq<SortOptions>, p: int, upto: int) -> Seq<u32>;
pub uninterp spec fn arrays_rows(arrays: Seq<ArrayRef>) -> nat;
pub uninterp spec fn strictly_sorted(split_points: Seq<SplitPoint>, sort_options: Seq<SortOptions>) -> bool;
/// contract PROVED in unit C10 `range_routing` (restated here, not re-proved): rows are APPENDED to the buckets
#[verifier::external_body]
pub fn partition_range_indices(arrays: &Vec<ArrayRef>, split_points: &mut Vec<SplitPoint>, sort_options: &mut Vec<SortOptions>,
                               row_key_buffer: &mut Vec<ScalarValue>, indices: &mut Vec<Vec<u32>>) -> (res: Result<()>)
    requires
        strictly_sorted(old(split_points)@, old(sort_options)@),
        old(indices)@.len() == old(split_points)@.len() + 1,
        arrays_rows(arrays@) <= u32::MAX,
    ensures
        final(indices)@.len() == old(indices)@.len(), final(split_points)@ == old(split_points)@, final(sort_options)@ == old(sort_options)@,
        res is Ok ==> forall|p: int| 0 <= p < old(indices)@.len() ==>
            (#[trigger] final(indices)@[p])@ == old(indices)@[p]@ + range_routed(arrays@, old(split_points)@, old(sort_options)@, p, arrays_rows(arrays@) as int),
{ unimplemented!() }

// ---- partition_grouped_take: index bookkeeping ----
/// R13: stands for `reordered_indices.extend_from_slice(p_indices)` with `p_indices = &mut indices[partition]`
#[verifier::external_body]
pub fn extend_from_bucket(out: &mut Vec<u32>, indices: &[Vec<u32>], partition: usize)
    requires partition < indices@.len(),
    ensures final(out)@ == old(out)@ + indices@[partition as int]@,
{ unimplemented!() }
/// R13: stands for `p_indices.clear()` with `p_indices = &mut indices[partition]`
#[verifier::external_body]
pub fn clear_bucket(indices: &mut [Vec<u32>], partition: usize)
    requires partition < old(indices)@.len(),
    ensures final(indices)@.len() == old(indices)@.len(), final(indices)@[partition as int]@.len() == 0,
        forall|q: int| 0 <= q < old(indices)@.len() && q != partition ==> final(indices)@[q] == old(indices)@[q],
{ unimplemented!() }
