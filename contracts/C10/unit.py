"""C10 — repartition routing: range partition id and the per-batch routing loops."""
LEVEL = "proof"
F = "datafusion/physical-plan/src/repartition/mod.rs"
VERUS = [dict(
    name="range_routing",
    uses="use vstd::prelude::*;\nuse std::cmp::Ordering;\nuse std::sync::Arc;\n",
    prelude="prelude.rs", proofs="proofs.rs", witness="witness.rs", rlimit=60, min_verified=8,
    twins=["c10_range_partition_id_bounded"], twin_timeout=900,
    items=[
        dict(file=F, path=["fn range_partition_id"], ret="res", loop_count=1,
             contract="""    requires strictly_sorted(split_points@, sort_options@),
    ensures res is Ok ==> ({ let r = res->Ok_0 as int;
        &&& 0 <= r <= split_points@.len()
        &&& forall|i: int| 0 <= i < r ==> cmp(row_key@, split_points@[i].v@, sort_options@) >= 0
        &&& forall|i: int| r <= i < split_points@.len() ==> cmp(row_key@, split_points@[i].v@, sort_options@) < 0
        // r = #{split points <= row}
        &&& r == pid(row_key@, split_points@, sort_options@) }),""",
             loops={0: """
        invariant
            0 <= low <= high <= split_points@.len(),
            strictly_sorted(split_points@, sort_options@),
            forall|i: int| 0 <= i < low ==> cmp(row_key@, split_points@[i].v@, sort_options@) >= 0,
            forall|i: int| high <= i < split_points@.len() ==> cmp(row_key@, split_points@[i].v@, sort_options@) < 0,
        decreases high - low
"""},
             proofs=[
                 dict(at="loop_body_end:0", text="""
        proof {
            // re-establish the invariant for whichever bound moved, by transitivity through split_points[mid]
            assert forall|i: int| 0 <= i < low implies cmp(row_key@, split_points@[i].v@, sort_options@) >= 0 by {
                if low == mid + 1 && i < mid { cmp_trans(row_key@, split_points@[mid as int].v@, split_points@[i].v@, sort_options@); }
            }
            assert forall|i: int| high <= i < split_points@.len() implies cmp(row_key@, split_points@[i].v@, sort_options@) < 0 by {
                if high == mid && i > mid { cmp_trans(row_key@, split_points@[mid as int].v@, split_points@[i].v@, sort_options@); }
            }
        }"""),
                 dict(at="after_loop:0", text="""
    proof { lemma_count(row_key@, split_points@, sort_options@, low as int, split_points@.len() as int); }"""),
             ]),
        dict(file=F, path=["impl BatchPartitioner", "fn partition_range_indices"], wrap="impl BatchPartitioner", ret="res", loop_count=1,
             edits=[dict(rule="R3", find="&[Arc<dyn Array>]", replace="&[ArrayRef]"),
                    dict(rule="R13", find="arrays.first().map(|a| a.len()).unwrap_or(0)", replace="first_len_or_zero(arrays)")],
             contract="""    requires
        strictly_sorted(split_points@, sort_options@),
        old(indices)@.len() == split_points@.len() + 1,
        arrays_rows(arrays@) <= u32::MAX,
    ensures
        final(indices)@.len() == old(indices)@.len(),
        res is Ok ==> forall|p: int| 0 <= p < old(indices)@.len() ==>
            (#[trigger] final(indices)@[p])@ == old(indices)@[p]@ + routed(arrays@, split_points@, sort_options@, p, arrays_rows(arrays@)),""",
             loops={0: """
        invariant
            indices@.len() == old(indices)@.len(),
            indices@.len() == split_points@.len() + 1,
            strictly_sorted(split_points@, sort_options@),
            num_rows as int == arrays_rows(arrays@), num_rows <= u32::MAX,
            forall|p: int| 0 <= p < indices@.len() ==>
                (#[trigger] indices@[p])@ == old(indices)@[p]@ + routed(arrays@, split_points@, sort_options@, p, row_idx as int),
"""},
             proofs=[dict(at="loop_body_end:0", text="""
            ;
            proof {
                let b = pid(row_at(arrays@, row_idx as int), split_points@, sort_options@);
                assert(partition as int == b);
                assert forall|p: int| 0 <= p < indices@.len() implies
                    (#[trigger] indices@[p])@ == old(indices)@[p]@ + routed(arrays@, split_points@, sort_options@, p, row_idx as int + 1) by {
                    if p == b {
                        assert(indices@[p]@ =~= old(indices)@[p]@ + routed(arrays@, split_points@, sort_options@, p, row_idx as int).push(row_idx as u32));
                    }
                }
            }""")]),
    ],
    requires_text=[dict(file=F, path=["impl PhysicalExpr for RangeExpr", "fn evaluate"],
                        must_contain=["range_partition_id(", "&self.split_points", "&self.sort_options", "extract_row_at_idx_to_buf(&arrays, row_idx, &mut row_key_buffer)"],
                        why="RangeExpr::evaluate must route through the same contracted function with its own split points and sort options (consistency of the range-partition expression with the partitioner)")],
    mutants=[
        dict(name="bisect_wrong_side", item="range_partition_id", find="Ordering::Less => high = mid,", replace="Ordering::Less | Ordering::Equal => high = mid,", fixup=("Ordering::Equal | Ordering::Greater => low = mid + 1,", "Ordering::Greater => low = mid + 1,")),
        dict(name="bisect_low_not_advanced", item="range_partition_id", find="low = mid + 1", replace="low = mid"),
        dict(name="route_off_by_one_bucket", item="partition_range_indices", find="indices[partition].push(row_idx as u32)", replace="indices[if partition > 0 { partition - 1 } else { 0 }].push(row_idx as u32)"),
        dict(name="route_row_shift", item="partition_range_indices", find="push(row_idx as u32)", replace="push((row_idx + 1) as u32)"),
    ],
)]
KANI = [dict(package="datafusion-physical-plan", module="physical_plan/repartition.rs", timeout=900, harnesses=[
    dict(name="c10_range_partition_id_bounded", complete=False, bound="<= 5 split points (keys 1,3,5,7,9), row keys 0..=10; compare_rows stubbed by a total pre-order on row length",
         what="Kani twin of the Verus unit on the unextracted range_partition_id: result == number of split points <= row"),
])]
TRUSTED = ["Verus 0.2026.09.13 + bundled Z3", "compare_rows abstracted as an uninterpreted comparison with assumed transitivity (cmp_trans)", "extract_row_at_idx_to_buf, SplitPoint::values, first().len() behind assumed contracts (Arrow)",
           "rewrites R3 (Arc<dyn Array> -> ArrayRef), R13 (closure expression -> assumed prelude fn)"]
ASSUMPTIONS = ["split points strictly increasing (enforced by validate_range_split_points at construction; not re-verified here)", "indices.len() == split_points.len()+1 (new_range_partitioner)", "batch rows <= u32::MAX",
               "on Err (row extraction / comparison failure) nothing is promised"]
NOT_COVERED = ["channels, spilling, early drop, order-preserving merge (concurrency / I/O)", "hash values (C12)", "round-robin arm of partition_iter (kani-compiler ICE rvalue.rs:1009 on the function) and partition_grouped_take (Arrow take/slice)", "RangeExpr::evaluate body beyond the syntactic same-callee check"]
EXPLANATION = "Routing decision of range repartitioning proved: partition id = number of split points <= row; every row of a batch lands exactly once in the bucket of its partition id (hash routing: see C11)."
