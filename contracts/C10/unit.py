"""C10 — repartition routing: range partition id and the per-batch routing loops."""
LEVEL = "proof"
F = "datafusion/physical-plan/src/repartition/mod.rs"
VERUS = [dict(
    name="range_routing",
    uses="use vstd::prelude::*;\nuse std::cmp::Ordering;\nuse std::sync::Arc;\n",
    prelude="prelude.rs", proofs="proofs.rs", witness="witness.rs", rlimit=60, min_verified=8,
    twins=["c10_range_partition_id_bounded"], twin_timeout=900,
    items=[
        dict(file=F, path=["fn range_partition_id"], ret="res", loop_count=1,
             contract="""    requires strictly_sorted(split_points@, sort_options@),
    ensures res is Ok ==> ({ let r = res->Ok_0 as int;
        &&& 0 <= r <= split_points@.len()
        &&& forall|i: int| 0 <= i < r ==> cmp(row_key@, split_points@[i].v@, sort_options@) >= 0
        &&& forall|i: int| r <= i < split_points@.len() ==> cmp(row_key@, split_points@[i].v@, sort_options@) < 0
        // r = #{split points <= row}
        &&& r == pid(row_key@, split_points@, sort_options@) }),""",
             loops={0: """
        invariant
            0 <= low <= high <= split_points@.len(),
            strictly_sorted(split_points@, sort_options@),
            forall|i: int| 0 <= i < low ==> cmp(row_key@, split_points@[i].v@, sort_options@) >= 0,
            forall|i: int| high <= i < split_points@.len() ==> cmp(row_key@, split_points@[i].v@, sort_options@) < 0,
        decreases high - low
"""},
             proofs=[
                 dict(at="loop_body_end:0", text="""
        proof {
            // re-establish the invariant for whichever bound moved, by transitivity through split_points[mid]
            assert forall|i: int| 0 <= i < low implies cmp(row_key@, split_points@[i].v@, sort_options@) >= 0 by {
                if low == mid + 1 && i < mid { cmp_trans(row_key@, split_points@[mid as int].v@, split_points@[i].v@, sort_options@); }
            }
            assert forall|i: int| high <= i < split_points@.len() implies cmp(row_key@, split_points@[i].v@, sort_options@) < 0 by {
                if high == mid && i > mid { cmp_trans(row_key@, split_points@[mid as int].v@, split_points@[i].v@, sort_options@); }
            }
        }"""),
                 dict(at="after_loop:0", text="""
    proof { lemma_count(row_key@, split_points@, sort_options@, low as int, split_points@.len() as int); }"""),
             ]),
        dict(file=F, path=["impl BatchPartitioner", "fn partition_range_indices"], wrap="impl BatchPartitioner", ret="res", loop_count=1,
             edits=[dict(rule="R3", find="&[Arc<dyn Array>]", replace="&[ArrayRef]"),
                    dict(rule="R13", find="arrays.first().map(|a| a.len()).unwrap_or(0)", replace="first_len_or_zero(arrays)")],
             contract="""    requires
        strictly_sorted(split_points@, sort_options@),
        old(indices)@.len() == split_points@.len() + 1,
        arrays_rows(arrays@) <= u32::MAX,
    ensures
        final(indices)@.len() == old(indices)@.len(),
        res is Ok ==> forall|p: int| 0 <= p < old(indices)@.len() ==>
            (#[trigger] final(indices)@[p])@ == old(indices)@[p]@ + routed(arrays@, split_points@, sort_options@, p, arrays_rows(arrays@)),""",
             loops={0: """
        invariant
            indices@.len() == old(indices)@.len(),
            indices@.len() == split_points@.len() + 1,
            strictly_sorted(split_points@, sort_options@),
            num_rows as int == arrays_rows(arrays@), num_rows <= u32::MAX,
            forall|p: int| 0 <= p < indices@.len() ==>
                (#[trigger] indices@[p])@ == old(indices)@[p]@ + routed(arrays@, split_points@, sort_options@, p, row_idx as int),
"""},
             proofs=[dict(at="loop_body_end:0", text="""
            ;
            proof {
                let b = pid(row_at(arrays@, row_idx as int), split_points@, sort_options@);
                assert(partition as int == b);
                assert forall|p: int| 0 <= p < indices@.len() implies
                    (#[trigger] indices@[p])@ == old(indices)@[p]@ + routed(arrays@, split_points@, sort_options@, p, row_idx as int + 1) by {
                    if p == b {
                        assert(indices@[p]@ =~= old(indices)@[p]@ + routed(arrays@, split_points@, sort_options@, p, row_idx as int).push(row_idx as u32));
                    }
                }
            }""")]),
    ],
    requires_text=[dict(file=F, path=["impl PhysicalExpr for RangeExpr", "fn evaluate"],
                        must_contain=["range_partition_id(", "&self.split_points", "&self.sort_options", "extract_row_at_idx_to_buf(&arrays, row_idx, &mut row_key_buffer)"],
                        why="RangeExpr::evaluate must route through the same contracted function with its own split points and sort options (consistency of the range-partition expression with the partitioner)")],
    mutants=[
        dict(name="bisect_wrong_side", item="range_partition_id", find="Ordering::Less => high = mid,", replace="Ordering::Less | Ordering::Equal => high = mid,", fixup=("Ordering::Equal | Ordering::Greater => low = mid + 1,", "Ordering::Greater => low = mid + 1,")),
        dict(name="bisect_low_not_advanced", item="range_partition_id", find="low = mid + 1", replace="low = mid"),
        dict(name="route_off_by_one_bucket", item="partition_range_indices", find="indices[partition].push(row_idx as u32)", replace="indices[if partition > 0 { partition - 1 } else { 0 }].push(row_idx as u32)"),
        dict(name="route_row_shift", item="partition_range_indices", find="push(row_idx as u32)", replace="push((row_idx + 1) as u32)"),
    ],
)]
# ------------------------------------------------------------------------------------------
# glue of the hash arm of BatchPartitioner::partition_iter: the statement sequence between the evaluation of the key
# expressions and the bucket computation, extracted as a FRAGMENT (the statements are the repository text, the signature
# lists the fragment's free variables).  What it decides: the buckets handed to partition_grouped_take are a function of
# THIS batch's key hashes only (zeroed, correctly sized hash buffer; buckets emptied before they are filled).
# ------------------------------------------------------------------------------------------
VERUS.append(dict(
    name="partition_iter_glue",
    uses="use vstd::prelude::*;\n",
    prelude="prelude_glue.rs", proofs="proofs_glue.rs", witness="witness_glue.rs", rlimit=30, min_verified=1, twins=[], std_specs=False,
    items=[
        dict(file=F, path=["impl BatchPartitioner", "fn partition_iter"], ret="r",
             fragment=dict(name="hash_arm_fragment",
                           start="let arrays =\n                        evaluate_expressions_to_arrays(exprs.as_slice(), &batch)?;",
                           end="partition_reducer.partition_indices(hash_buffer, indices);",
                           signature="fn hash_arm_fragment(exprs: &mut Vec<PhysicalExprRef>, partition_reducer: &mut StrengthReducedU64, hash_buffer: &mut Vec<u64>, indices: &mut Vec<Vec<u32>>, batch: RecordBatch) -> Result<()>",
                           tail="Ok(())"),
             edits=[dict(rule="R13", find="REPARTITION_RANDOM_STATE.random_state()", replace="repartition_random_state()"),
                    dict(rule="R13", regex=r"for v in indices\.iter_mut\(\) \{\s*v\.clear\(\);\s*\}", replace="clear_all(indices);", count="any"),
                    dict(rule="R3", find="partition_reducer.partition_indices(hash_buffer, indices);", replace="partition_reducer.partition_indices(hash_buffer.as_slice(), indices.as_mut_slice());")],
             contract="""    requires
        old(indices)@.len() >= 1, old(partition_reducer).divisor() == old(indices)@.len(), batch.rows() <= u32::MAX,
    ensures
        // every row of THIS batch, exactly once, in the bucket (key hash of the row) mod (number of outputs);
        // nothing left over from earlier batches
        r is Ok ==> final(indices)@.len() == old(indices)@.len()
            && forall|p: int| 0 <= p < old(indices)@.len() ==>
                (#[trigger] final(indices)@[p])@ == routed(key_hashes(old(exprs)@, batch), old(indices)@.len() as int, p, batch.rows() as int),"""),
        dict(file=F, path=["impl BatchPartitioner", "fn partition_iter"], ret="r",
             fragment=dict(name="range_arm_fragment",
                           start="                        for v in indices.iter_mut() {\n                            v.clear();\n                        }\n\n                        Self::partition_range_indices(",
                           end="partition_buffer,\n                            indices,\n                        )?;",
                           signature="fn range_arm_fragment(arrays: Vec<ArrayRef>, split_points: &mut Vec<SplitPoint>, sort_options: &mut Vec<SortOptions>, partition_buffer: &mut Vec<ScalarValue>, indices: &mut Vec<Vec<u32>>) -> Result<()>",
                           tail="Ok(())"),
             edits=[dict(rule="R13", regex=r"for v in indices\.iter_mut\(\) \{\s*v\.clear\(\);\s*\}", replace="clear_all(indices);", count="any"),
                    dict(rule="R3", find="Self::partition_range_indices(", replace="partition_range_indices(")],
             contract="""    requires
        strictly_sorted(old(split_points)@, old(sort_options)@), old(indices)@.len() == old(split_points)@.len() + 1, arrays_rows(arrays@) <= u32::MAX,
    ensures
        // every row of THIS batch, exactly once, in the bucket selected by the split points; nothing left over from earlier batches
        r is Ok ==> final(indices)@.len() == old(indices)@.len()
            && forall|p: int| 0 <= p < old(indices)@.len() ==>
                (#[trigger] final(indices)@[p])@ == range_routed(arrays@, old(split_points)@, old(sort_options)@, p, arrays_rows(arrays@) as int),"""),
        dict(file=F, path=["impl BatchPartitioner", "fn partition_grouped_take"], ret="r", loop_count=1,
             fragment=dict(name="grouped_take_bookkeeping",
                           start="let mut partition_ranges = Vec::with_capacity(indices.len());",
                           end="            p_indices.clear();\n        }",
                           signature="fn grouped_take_bookkeeping(batch: &RecordBatch, indices: &mut [Vec<u32>]) -> (Vec<(usize, usize, usize)>, Vec<u32>)",
                           tail="(partition_ranges, reordered_indices)"),
             edits=[dict(rule="R1", find="for (partition, p_indices) in indices.iter_mut().enumerate() {", replace="for partition in 0..indices.len() {"),
                    dict(rule="R13", find="p_indices.is_empty()", replace="indices[partition].is_empty()"),
                    dict(rule="R13", find="reordered_indices.extend_from_slice(p_indices);", replace="extend_from_bucket(&mut reordered_indices, indices, partition);"),
                    dict(rule="R13", find="p_indices.len()", replace="indices[partition].len()"),
                    dict(rule="R13", find="p_indices.clear();", replace="clear_bucket(indices, partition);"),
                    dict(rule="R3", find="let mut partition_ranges = Vec::with_capacity(indices.len());", replace="let mut partition_ranges: Vec<(usize, usize, usize)> = Vec::with_capacity(indices.len());"),
                    dict(rule="R3", find="let mut reordered_indices = Vec::with_capacity(batch.num_rows());", replace="let mut reordered_indices: Vec<u32> = Vec::with_capacity(batch.num_rows());"),
                    dict(rule="R18", elim_continue=True)],
             contract="""    ensures
        // the rows of all buckets concatenated bucket by bucket; one (partition, start, len) range per non-empty bucket, in
        // bucket order, locating exactly that bucket's rows; every bucket emptied for the next batch
        ranges_ok(r.0@, old(indices)@, r.1@, old(indices)@.len() as int),
        final(indices)@.len() == old(indices)@.len(),
        forall|q: int| 0 <= q < final(indices)@.len() ==> (#[trigger] final(indices)@[q])@.len() == 0,""",
             loops={0: """
        invariant
            indices@.len() == old(indices)@.len(),
            ranges_ok(partition_ranges@, old(indices)@, reordered_indices@, partition as int),
            forall|q: int| 0 <= q < partition ==> (#[trigger] indices@[q])@.len() == 0,
            forall|q: int| partition <= q < indices@.len() ==> indices@[q] == old(indices)@[q],
"""},
             proofs=[dict(at="loop_body_start:0", text="""
            let ghost r0 = partition_ranges@; let ghost re0 = reordered_indices@;"""),
                     dict(at="loop_body_end:0", text="""
            proof { lemma_ranges_step(r0, partition_ranges@, old(indices)@, re0, reordered_indices@, partition as int); }""")]),
    ],
    mutants=[
        dict(name="take_range_start_after_extend", item="grouped_take_bookkeeping", find="let start = reordered_indices.len();\n", replace="",
             fixup=("partition_ranges.push((partition, start, indices[partition].len()));", "let start = reordered_indices.len(); partition_ranges.push((partition, start, indices[partition].len()));")),
        dict(name="take_bucket_not_cleared", item="grouped_take_bookkeeping", find="clear_bucket(indices, partition);", replace=""),
        dict(name="take_range_wrong_partition", item="grouped_take_bookkeeping", find="partition_ranges.push((partition, start,", replace="partition_ranges.push((partition + 1, start,"),
        dict(name="range_buckets_not_emptied", item="range_arm_fragment", find="clear_all(indices);", replace=""),
        dict(name="hash_buffer_not_zeroed", item="hash_arm_fragment", find="hash_buffer.clear();", replace=""),
        dict(name="buckets_not_emptied", item="hash_arm_fragment", find="clear_all(indices);", replace=""),
        dict(name="hash_buffer_one_short", item="hash_arm_fragment", find="hash_buffer.resize(batch.num_rows(), 0);", replace="hash_buffer.resize(batch.num_rows() - 1, 0);"),
    ],
))
KANI = [dict(package="datafusion-physical-plan", module="physical_plan/repartition.rs", timeout=900, harnesses=[
    dict(name="c10_range_partition_id_bounded", complete=False, bound="<= 5 split points (keys 1,3,5,7,9), row keys 0..=10; compare_rows stubbed by a total pre-order on row length",
         what="Kani twin of the Verus unit on the unextracted range_partition_id: result == number of split points <= row"),
])]
TRUSTED = ["partition_iter_glue: ASSUMED contract of create_hashes (result is the key hash only for a zeroed buffer with one slot per row), the proved contracts of partition_indices (C11) and partition_range_indices restated in prelude_glue.rs, FRAGMENT extraction (free variables of the fragment typed in the unit)",
           "Verus 0.2026.09.13 + bundled Z3", "compare_rows abstracted as an uninterpreted comparison with assumed transitivity (cmp_trans)", "extract_row_at_idx_to_buf, SplitPoint::values, first().len() behind assumed contracts (Arrow)",
           "rewrites R3 (Arc<dyn Array> -> ArrayRef), R13 (closure expression -> assumed prelude fn)"]
ASSUMPTIONS = ["split points strictly increasing (enforced by validate_range_split_points at construction; not re-verified here)", "indices.len() == split_points.len()+1 (new_range_partitioner)", "batch rows <= u32::MAX",
               "on Err (row extraction / comparison failure) nothing is promised"]
NOT_COVERED = ["channels, spilling, early drop, order-preserving merge (concurrency / I/O)", "hash values (C12)", "round-robin arm of partition_iter (kani-compiler ICE rvalue.rs:1009 on the function) and partition_grouped_take (Arrow take/slice)", "RangeExpr::evaluate body beyond the syntactic same-callee check"]
EXPLANATION = "Routing decision of range repartitioning proved: partition id = number of split points <= row; every row of a batch lands exactly once in the bucket of its partition id (hash routing: see C11)."
