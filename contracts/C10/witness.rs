fn witness_pid(row: &[ScalarValue], o: &[SortOptions]) {
    let sp: Vec<SplitPoint> = Vec::new();
    let r = range_partition_id(row, sp.as_slice(), o);
    //@MUSTFAIL
}
fn witness_route(arrays: &[ArrayRef], o: &[SortOptions])
    requires arrays_rows(arrays@) <= 10
{
    let sp: Vec<SplitPoint> = Vec::new();
    let mut buf: Vec<ScalarValue> = Vec::new();
    let mut idx: Vec<Vec<u32>> = Vec::new();
    idx.push(Vec::new());
    let r = BatchPartitioner::partition_range_indices(arrays, sp.as_slice(), o, &mut buf, idx.as_mut_slice());
    //@MUSTFAIL
}
