/// all rows of buckets 0..p, bucket by bucket
pub open spec fn flat(indices: Seq<Vec<u32>>, p: int) -> Seq<u32>
    decreases p
{
    if p <= 0 { Seq::empty() } else { flat(indices, p - 1) + indices[p - 1]@ }
}
/// the bookkeeping invariant of the grouping loop over buckets 0..p
pub open spec fn ranges_ok(ranges: Seq<(usize, usize, usize)>, old_indices: Seq<Vec<u32>>, reordered: Seq<u32>, p: int) -> bool {
    &&& reordered == flat(old_indices, p)
    // one range per non-empty bucket, in bucket order, each the exact position of that bucket's rows
    &&& forall|k: int| 0 <= k < ranges.len() ==> {
            let (part, start, len) = #[trigger] ranges[k];
            0 <= part < p && len > 0 && len == old_indices[part as int]@.len() && start == flat(old_indices, part as int).len()
            && start + len <= reordered.len() && reordered.subrange(start as int, start + len) == old_indices[part as int]@ }
    &&& forall|k: int, l: int| 0 <= k < l < ranges.len() ==> (#[trigger] ranges[k]).0 < (#[trigger] ranges[l]).0
    &&& forall|q: int| 0 <= q < p && old_indices[q]@.len() > 0 ==> exists|k: int| 0 <= k < ranges.len() && (#[trigger] ranges[k]).0 == q
}
pub proof fn lemma_flat_len_mono(indices: Seq<Vec<u32>>, a: int, b: int)
    requires 0 <= a <= b <= indices.len(),
    ensures flat(indices, a).len() <= flat(indices, b).len(), flat(indices, b).subrange(0, flat(indices, a).len() as int) == flat(indices, a),
    decreases b - a
{
    if a < b {
        lemma_flat_len_mono(indices, a, b - 1);
        assert(flat(indices, b) == flat(indices, b - 1) + indices[b - 1]@);
        assert(flat(indices, b).subrange(0, flat(indices, a).len() as int) =~= flat(indices, b - 1).subrange(0, flat(indices, a).len() as int));
    } else {
        assert(flat(indices, b).subrange(0, flat(indices, a).len() as int) =~= flat(indices, a));
    }
}
/// one iteration of the grouping loop (bucket p), as a relation between the abstract states
pub proof fn lemma_ranges_step(r0: Seq<(usize, usize, usize)>, r1: Seq<(usize, usize, usize)>, oldi: Seq<Vec<u32>>, re0: Seq<u32>, re1: Seq<u32>, p: int)
    requires
        0 <= p < oldi.len(), ranges_ok(r0, oldi, re0, p),
        if oldi[p]@.len() == 0 { r1 == r0 && re1 == re0 }
        else { re1 == re0 + oldi[p]@ && r1 == r0.push((p as usize, re0.len() as usize, oldi[p]@.len() as usize)) && re0.len() <= usize::MAX && p <= usize::MAX && oldi[p]@.len() <= usize::MAX },
    ensures ranges_ok(r1, oldi, re1, p + 1),
{
    assert(flat(oldi, p + 1) == flat(oldi, p) + oldi[p]@);
    if oldi[p]@.len() == 0 {
        assert(re1 =~= flat(oldi, p + 1));
        assert forall|q: int| 0 <= q < p + 1 && oldi[q]@.len() > 0 implies exists|k: int| 0 <= k < r1.len() && (#[trigger] r1[k]).0 == q by {
            let k = choose|k: int| 0 <= k < r0.len() && (#[trigger] r0[k]).0 == q; assert(r1[k].0 == q);
        }
    } else {
        assert forall|k: int| 0 <= k < r1.len() implies {
            let (part, start, len) = #[trigger] r1[k];
            0 <= part < p + 1 && len > 0 && len == oldi[part as int]@.len() && start == flat(oldi, part as int).len()
            && start + len <= re1.len() && re1.subrange(start as int, start + len) == oldi[part as int]@ } by {
            if k < r0.len() {
                assert(r1[k] == r0[k]);
                let (part, start, len) = r0[k];
                assert(re1.subrange(start as int, start + len) =~= re0.subrange(start as int, start + len));
            } else {
                assert(r1[k] == (p as usize, re0.len() as usize, oldi[p]@.len() as usize));
                assert(re1.subrange(re0.len() as int, (re0.len() + oldi[p]@.len()) as int) =~= oldi[p]@);
            }
        }
        assert forall|k: int, l: int| 0 <= k < l < r1.len() implies (#[trigger] r1[k]).0 < (#[trigger] r1[l]).0 by {
            if l < r0.len() { assert(r1[k] == r0[k] && r1[l] == r0[l]); } else { assert(r1[k] == r0[k]); assert(r0[k].0 < p); }
        }
        assert forall|q: int| 0 <= q < p + 1 && oldi[q]@.len() > 0 implies exists|k: int| 0 <= k < r1.len() && (#[trigger] r1[k]).0 == q by {
            if q == p { assert(r1[r0.len() as int].0 == p); }
            else { let k = choose|k: int| 0 <= k < r0.len() && (#[trigger] r0[k]).0 == q; assert(r1[k] == r0[k]); }
        }
    }
}
