fn witness_hash_arm(exprs: &mut Vec<PhysicalExprRef>, red: &mut StrengthReducedU64, buf: &mut Vec<u64>, idx: &mut Vec<Vec<u32>>, batch: RecordBatch)
    requires old(idx)@.len() == 4, old(red).divisor() == 4, batch.rows() == 10,
{
    let r = hash_arm_fragment(exprs, red, buf, idx, batch);
    //@MUSTFAIL
}
fn witness_range_arm(arrays: Vec<ArrayRef>, sp: &mut Vec<SplitPoint>, so: &mut Vec<SortOptions>, buf: &mut Vec<ScalarValue>, idx: &mut Vec<Vec<u32>>)
    requires strictly_sorted(old(sp)@, old(so)@), old(idx)@.len() == old(sp)@.len() + 1, arrays_rows(arrays@) <= 100,
{
    let r = range_arm_fragment(arrays, sp, so, buf, idx);
    //@MUSTFAIL
}
fn witness_grouped_take(batch: &RecordBatch, idx: &mut [Vec<u32>]) requires old(idx)@.len() == 3 {
    let r = grouped_take_bookkeeping(batch, idx);
    //@MUSTFAIL
}
