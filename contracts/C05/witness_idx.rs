fn witness_anti(a: &IdxArr) requires sorted(a.view()) {
    let r = get_anti_indices(Range { start: 2, end: 7 }, a);
    //@MUSTFAIL
}
fn witness_semi(a: &IdxArr) requires sorted(a.view()) {
    let r = get_semi_indices(Range { start: 2, end: 7 }, a);
    //@MUSTFAIL
}
