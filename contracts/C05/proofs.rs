/// key - offset modulo 2^64 (what `wrapping_sub` computes)
spec fn wsub(a: u64, b: u64) -> u64 { if a >= b { (a - b) as u64 } else { (a + 0x1_0000_0000_0000_0000 - b) as u64 } }
/// 1-based head stored for `key` (0: absent)
spec fn head_of(data: Seq<u32>, offset: u64, key: u64) -> u32 {
    let i = wsub(key, offset);
    if (i as int) < data.len() { data[i as int] } else { 0 }
}
/// build rows reached from a head: with an empty `next` (no duplicate keys) a head stands for exactly one row
spec fn am_chain(next: Seq<u32>, head: u32) -> Seq<u64> {
    if next.len() == 0 { if head == 0 { Seq::empty() } else { seq![(head - 1) as u64] } } else { chain(next, head) }
}
/// THE TRUTH on the build side: rows >= from whose key equals k, ascending
spec fn rows_with_key(build: Seq<Option<u64>>, k: u64, from: int) -> Seq<u64>
    decreases build.len() - from
{
    if from < 0 || from >= build.len() { Seq::empty() }
    else if build[from] == Some(k) { seq![from as u64] + rows_with_key(build, k, from + 1) }
    else { rows_with_key(build, k, from + 1) }
}
/// representation invariant while rows i.. of the build array have been inserted (i == 0: the finished map)
spec fn build_inv(data: Seq<u32>, next: Seq<u32>, offset: u64, build: Seq<Option<u64>>, i: int) -> bool {
    &&& (next.len() == 0 || next.len() == build.len())
    &&& build.len() < u32::MAX
    &&& wf_chain(next)
    &&& forall|j: int| 0 <= j < data.len() ==> (#[trigger] data[j]) == 0 || (i < data[j] as int <= build.len())
    &&& forall|r: int| 0 <= r < i && r < next.len() ==> (#[trigger] next[r]) == 0
    &&& forall|k: u64| am_chain(next, #[trigger] head_of(data, offset, k)) == rows_with_key(build, k, i)
}
spec fn am_wf(m: ArrayMap, build: Seq<Option<u64>>) -> bool { build_inv(m.data@, m.next@, m.offset, build, 0) }

/// build rows joined to probe row r: NULL probes match nothing
spec fn join_row(build: Seq<Option<u64>>, probe: Seq<Option<u64>>, r: int) -> Seq<u64> {
    match probe[r] { None => Seq::empty(), Some(k) => rows_with_key(build, k, 0) }
}
/// THE UNPAGED ANSWER from probe row r on
spec fn rest_b(build: Seq<Option<u64>>, probe: Seq<Option<u64>>, r: int) -> Seq<u64>
    decreases probe.len() - r
{
    if r < 0 || r >= probe.len() { Seq::empty() } else { join_row(build, probe, r) + rest_b(build, probe, r + 1) }
}
spec fn rest_a(build: Seq<Option<u64>>, probe: Seq<Option<u64>>, r: int) -> Seq<u32>
    decreases probe.len() - r
{
    if r < 0 || r >= probe.len() { Seq::empty() }
    else { Seq::new(join_row(build, probe, r).len(), |i: int| r as u32) + rest_a(build, probe, r + 1) }
}
spec fn off_b(build: Seq<Option<u64>>, next: Seq<u32>, probe: Seq<Option<u64>>, o: MapOffset) -> Seq<u64> {
    match o.1 {
        None => rest_b(build, probe, o.0 as int),
        Some(k) => if k == 0 { rest_b(build, probe, o.0 + 1) } else { chain(next, k as u32) + rest_b(build, probe, o.0 + 1) },
    }
}
spec fn off_a(build: Seq<Option<u64>>, next: Seq<u32>, probe: Seq<Option<u64>>, o: MapOffset) -> Seq<u32> {
    match o.1 {
        None => rest_a(build, probe, o.0 as int),
        Some(k) => if k == 0 { rest_a(build, probe, o.0 + 1) }
                   else { Seq::new(chain(next, k as u32).len(), |i: int| o.0 as u32) + rest_a(build, probe, o.0 + 1) },
    }
}
spec fn offset_ok(next: Seq<u32>, probe: Seq<Option<u64>>, o: MapOffset) -> bool {
    match o.1 {
        None => o.0 <= probe.len(),
        Some(k) => o.0 < probe.len() && k as int <= next.len() && k <= u32::MAX,
    }
}
spec fn res_b(build: Seq<Option<u64>>, next: Seq<u32>, probe: Seq<Option<u64>>, o: Result<Option<MapOffset>>) -> Seq<u64> {
    match o { Ok(Some(x)) => off_b(build, next, probe, x), _ => Seq::empty() }
}
spec fn res_a(build: Seq<Option<u64>>, next: Seq<u32>, probe: Seq<Option<u64>>, o: Result<Option<MapOffset>>) -> Seq<u32> {
    match o { Ok(Some(x)) => off_a(build, next, probe, x), _ => Seq::empty() }
}

/// a chain only reads links of rows at or after its head (reversed insertion: links go to later rows)
proof fn lemma_chain_frame(n1: Seq<u32>, n2: Seq<u32>, h: u32, lo: int)
    requires wf_chain(n1), wf_chain(n2), n1.len() == n2.len(),
             forall|r: int| lo <= r < n1.len() ==> n1[r] == n2[r],
             h == 0 || h as int - 1 >= lo,
    ensures chain(n1, h) == chain(n2, h),
    decreases (if h == 0 || h as int > n1.len() { 0int } else { n1.len() - (h as int - 1) + 1 })
{
    if h == 0 || h as int > n1.len() {
    } else {
        let nx = n1[h as int - 1];
        assert(nx == n2[h as int - 1]);
        assert(nx == 0 || (1 <= nx as int <= n1.len() && rank(n1.len() as int, nx as int - 1) < rank(n1.len() as int, h as int - 1)));
        lemma_chain_frame(n1, n2, nx, lo);
    }
}
/// in an all-zero `next` every head stands for one row
proof fn lemma_chain_zero(n: Seq<u32>, h: u32)
    requires forall|r: int| 0 <= r < n.len() ==> n[r] == 0, 1 <= h as int <= n.len(),
    ensures wf_chain(n), chain(n, h) =~= seq![(h - 1) as u64],
{
    assert(wf_chain(n));
    assert(chain(n, 0u32) =~= Seq::<u64>::empty());
    assert(chain(n, h) == seq![(h - 1) as u64] + chain(n, n[h as int - 1]));
}
spec fn zeros(n: nat) -> Seq<u32> { Seq::new(n, |j: int| 0u32) }
/// one insertion step of the build loop (row r, going downwards), as a relation between the abstract states
spec fn fill_step(d0: Seq<u32>, n0: Seq<u32>, d1: Seq<u32>, n1: Seq<u32>, offset: u64, build: Seq<Option<u64>>, r: int) -> bool {
    match build[r] {
        None => d1 =~= d0 && n1 =~= n0,
        Some(key) => {
            let idx = wsub(key, offset) as int;
            &&& idx < d0.len()
            &&& d1 =~= d0.update(idx, (r + 1) as u32)
            &&& if d0[idx] != 0 { n1 =~= (if n0.len() == 0 { zeros(build.len()) } else { n0 }).update(r, d0[idx]) } else { n1 =~= n0 }
        }
    }
}
proof fn lemma_rows_skip(build: Seq<Option<u64>>, k: u64, r: int)
    requires 0 <= r < build.len(), build[r] != Some(k),
    ensures rows_with_key(build, k, r) == rows_with_key(build, k, r + 1),
{}
proof fn lemma_fill_step(d0: Seq<u32>, n0: Seq<u32>, d1: Seq<u32>, n1: Seq<u32>, offset: u64, build: Seq<Option<u64>>, r: int)
    requires 0 <= r < build.len(), build_inv(d0, n0, offset, build, r + 1), fill_step(d0, n0, d1, n1, offset, build, r),
    ensures build_inv(d1, n1, offset, build, r),
{
    match build[r] {
        None => {
            assert forall|k: u64| am_chain(n1, #[trigger] head_of(d1, offset, k)) == rows_with_key(build, k, r) by {
                lemma_rows_skip(build, k, r);
            }
        }
        Some(key) => {
            let idx = wsub(key, offset) as int;
            let h = d0[idx];
            assert(head_of(d0, offset, key) == h);
            if h != 0 {
                let nz = if n0.len() == 0 { zeros(build.len()) } else { n0 };
                // zero-filling `next` keeps every chain
                assert(wf_chain(nz) && forall|k: u64| chain(nz, #[trigger] head_of(d0, offset, k)) == rows_with_key(build, k, r + 1)) by {
                    if n0.len() == 0 {
                        assert(wf_chain(nz));
                        assert forall|k: u64| chain(nz, #[trigger] head_of(d0, offset, k)) == rows_with_key(build, k, r + 1) by {
                            let hk = head_of(d0, offset, k);
                            if hk != 0 { lemma_chain_zero(nz, hk); } else { assert(chain(nz, 0u32) =~= Seq::<u64>::empty()); }
                            assert(am_chain(n0, hk) =~= chain(nz, hk));
                        }
                    } else {
                        assert forall|k: u64| chain(nz, #[trigger] head_of(d0, offset, k)) == rows_with_key(build, k, r + 1) by {
                            assert(am_chain(n0, head_of(d0, offset, k)) == chain(nz, head_of(d0, offset, k)));
                        }
                    }
                }
                assert(n1.len() == build.len());
                assert(wf_chain(n1)) by {
                    assert forall|i: int| 0 <= i < n1.len() implies (#[trigger] n1[i]) == 0
                        || (1 <= n1[i] as int <= n1.len() && rank(n1.len() as int, n1[i] as int - 1) < rank(n1.len() as int, i)) by {
                        if i == r { assert(n1[i] == h); } else { assert(n1[i] == nz[i]); }
                    }
                }
                assert forall|k: u64| am_chain(n1, #[trigger] head_of(d1, offset, k)) == rows_with_key(build, k, r) by {
                    let hk0 = head_of(d0, offset, k);
                    if k == key {
                        assert(head_of(d1, offset, k) == (r + 1) as u32);
                        lemma_chain_frame(nz, n1, h, r + 1);
                        assert(chain(n1, (r + 1) as u32) == seq![r as u64] + chain(n1, n1[r]));
                    } else {
                        assert(wsub(k, offset) != wsub(key, offset));
                        assert(head_of(d1, offset, k) == hk0);
                        lemma_chain_frame(nz, n1, hk0, r + 1);
                        lemma_rows_skip(build, k, r);
                    }
                }
                assert forall|q: int| 0 <= q < r && q < n1.len() implies (#[trigger] n1[q]) == 0 by { assert(n1[q] == nz[q]); }
            } else {
                assert(rows_with_key(build, key, r + 1) =~= Seq::<u64>::empty());
                assert forall|k: u64| am_chain(n1, #[trigger] head_of(d1, offset, k)) == rows_with_key(build, k, r) by {
                    if k == key {
                        assert(head_of(d1, offset, k) == (r + 1) as u32);
                        if n1.len() != 0 {
                            assert(n1[r] == 0);
                            assert(chain(n1, 0u32) =~= Seq::<u64>::empty());
                            assert(chain(n1, (r + 1) as u32) == seq![r as u64] + chain(n1, n1[r]));
                        }
                        assert(am_chain(n1, (r + 1) as u32) =~= seq![r as u64]);
                    } else {
                        assert(wsub(k, offset) != wsub(key, offset));
                        assert(head_of(d1, offset, k) == head_of(d0, offset, k));
                        lemma_rows_skip(build, k, r);
                    }
                }
            }
        }
    }
}
