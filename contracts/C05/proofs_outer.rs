spec fn sorted32(v: Seq<u32>) -> bool { forall|i: int, j: int| 0 <= i <= j < v.len() ==> v[i] <= v[j] }
spec fn occurs32(v: Seq<u32>, x: int) -> bool { exists|j: int| 0 <= j < v.len() && #[trigger] v[j] as int == x }
/// probe rows a..b without a match
spec fn gap_p(a: int, b: int) -> Seq<u32> { if a < b { Seq::new((b - a) as nat, |j: int| (a + j) as u32) } else { Seq::empty() } }
spec fn gap_b(a: int, b: int) -> Seq<Option<u64>> { if a < b { Seq::new((b - a) as nat, |j: int| None::<u64>) } else { Seq::empty() } }
/// THE DEFINITION of the order-preserving outer index lists from matched pair k on, the next uncovered probe row being `prev`:
/// unmatched rows before the pair (NULL build index), the pair, then the rest; after the last pair the rows up to `end`
spec fn emit_p(probe: Seq<u32>, end: int, prev: int, k: int) -> Seq<u32>
    decreases probe.len() - k
{
    if k < 0 || k >= probe.len() { gap_p(prev, end) }
    else { gap_p(prev, probe[k] as int) + seq![probe[k]] + emit_p(probe, end, probe[k] as int + 1, k + 1) }
}
spec fn emit_b(build: Seq<u64>, probe: Seq<u32>, end: int, prev: int, k: int) -> Seq<Option<u64>>
    decreases probe.len() - k
{
    if k < 0 || k >= probe.len() { gap_b(prev, end) }
    else { gap_b(prev, probe[k] as int) + seq![Some(build[k])] + emit_b(build, probe, end, probe[k] as int + 1, k + 1) }
}
spec fn has_pair(ep: Seq<u32>, eb: Seq<Option<u64>>, pr: u32, b: u64) -> bool { exists|i: int| 0 <= i < ep.len() && i < eb.len() && ep[i] == pr && #[trigger] eb[i] == Some(b) }
/// hypotheses under which the definition is unfolded from pair k with `prev` the next uncovered probe row
spec fn emit_pre(probe: Seq<u32>, end: int, prev: int, k: int) -> bool {
    &&& 0 <= k <= probe.len() && 0 <= prev <= end <= u32::MAX
    &&& sorted32(probe)
    &&& forall|j: int| 0 <= j < k ==> (#[trigger] probe[j] as int) < prev
    &&& forall|j: int| k <= j < probe.len() ==> (#[trigger] probe[j] as int) + 1 >= prev && (probe[j] as int) < end
}
/// what the lists mean, row by row (independent of the order in which the code produces them)
spec fn emit_post(build: Seq<u64>, probe: Seq<u32>, end: int, prev: int, k: int, ep: Seq<u32>, eb: Seq<Option<u64>>) -> bool {
    &&& ep.len() == eb.len()
    // probe rows never go backwards and stay inside the range
    &&& forall|i: int| 0 <= i < ep.len() ==> (#[trigger] ep[i] as int) + 1 >= prev && (ep[i] as int) < end
    &&& forall|i: int, j: int| 0 <= i <= j < ep.len() ==> ep[i] <= ep[j]
    // a NULL build index only on a probe row that has no match at all; a build index only as part of an input pair
    &&& forall|i: int| 0 <= i < ep.len() && (#[trigger] eb[i]) is None ==> !occurs32(probe, ep[i] as int)
    &&& forall|i: int| 0 <= i < ep.len() && (#[trigger] eb[i]) is Some ==> exists|j: int| k <= j < probe.len() && probe[j] == ep[i] && #[trigger] build[j] == eb[i]->Some_0
    // every probe row of the range from `prev` on is present, and so is every pair from k on
    &&& forall|x: int| prev <= x < end ==> #[trigger] occurs32(ep, x)
    &&& forall|j: int| k <= j < probe.len() ==> #[trigger] has_pair(ep, eb, probe[j], build[j])
}
proof fn lemma_emit_meaning(build: Seq<u64>, probe: Seq<u32>, end: int, prev: int, k: int)
    requires emit_pre(probe, end, prev, k), build.len() == probe.len(),
    ensures emit_post(build, probe, end, prev, k, emit_p(probe, end, prev, k), emit_b(build, probe, end, prev, k)),
    decreases probe.len() - k
{
    let ep = emit_p(probe, end, prev, k); let eb = emit_b(build, probe, end, prev, k);
    if k >= probe.len() {
        assert forall|i: int| 0 <= i < ep.len() && (#[trigger] eb[i]) is None implies !occurs32(probe, ep[i] as int) by {
            if occurs32(probe, ep[i] as int) { let j = choose|j: int| 0 <= j < probe.len() && #[trigger] probe[j] as int == ep[i] as int; assert((probe[j] as int) < prev); }
        }
        assert forall|x: int| prev <= x < end implies #[trigger] occurs32(ep, x) by { assert(ep[x - prev] as int == x); }
    } else {
        let p = probe[k] as int;
        let gp = gap_p(prev, p); let gb = gap_b(prev, p);
        let rp = emit_p(probe, end, p + 1, k + 1); let rb = emit_b(build, probe, end, p + 1, k + 1);
        assert(emit_pre(probe, end, p + 1, k + 1)) by {
            assert forall|j: int| 0 <= j < k + 1 implies (#[trigger] probe[j] as int) < p + 1 by { assert(probe[j] <= probe[k]); }
            assert forall|j: int| k + 1 <= j < probe.len() implies (#[trigger] probe[j] as int) + 1 >= p + 1 && (probe[j] as int) < end by { assert(probe[k] <= probe[j]); }
        }
        lemma_emit_meaning(build, probe, end, p + 1, k + 1);
        assert(ep == gp + seq![probe[k]] + rp);
        assert(eb == gb + seq![Some(build[k])] + rb);
        let g = gp.len() as int;
        assert forall|i: int| 0 <= i < ep.len() implies (#[trigger] ep[i] as int) + 1 >= prev && (ep[i] as int) < end by {
            if i < g { assert(ep[i] == gp[i]); } else if i == g { assert(ep[i] == probe[k]); } else { assert(ep[i] == rp[i - g - 1]); }
        }
        assert forall|i: int, j: int| 0 <= i <= j < ep.len() implies ep[i] <= ep[j] by {
            if i < g { assert(ep[i] == gp[i]); } else if i == g { assert(ep[i] == probe[k]); } else { assert(ep[i] == rp[i - g - 1]); }
            if j < g { assert(ep[j] == gp[j]); } else if j == g { assert(ep[j] == probe[k]); } else { assert(ep[j] == rp[j - g - 1]); assert((rp[j - g - 1] as int) + 1 >= p + 1); }
        }
        assert forall|i: int| 0 <= i < ep.len() && (#[trigger] eb[i]) is None implies !occurs32(probe, ep[i] as int) by {
            if i < g {
                assert(ep[i] == gp[i] && eb[i] == gb[i]);
                if occurs32(probe, ep[i] as int) {
                    let j = choose|j: int| 0 <= j < probe.len() && #[trigger] probe[j] as int == ep[i] as int;
                    if j < k { assert((probe[j] as int) < prev); } else { assert(probe[k] <= probe[j]); }
                }
            } else if i == g { assert(eb[i] == Some(build[k])); } else { assert(ep[i] == rp[i - g - 1] && eb[i] == rb[i - g - 1]); }
        }
        assert forall|i: int| 0 <= i < ep.len() && (#[trigger] eb[i]) is Some implies exists|j: int| k <= j < probe.len() && probe[j] == ep[i] && #[trigger] build[j] == eb[i]->Some_0 by {
            if i < g { assert(eb[i] == gb[i]); }
            else if i == g { assert(ep[i] == probe[k] && eb[i] == Some(build[k])); assert(build[k] == eb[i]->Some_0); }
            else {
                assert(ep[i] == rp[i - g - 1] && eb[i] == rb[i - g - 1]);
                let j = choose|j: int| k + 1 <= j < probe.len() && probe[j] == rp[i - g - 1] && #[trigger] build[j] == rb[i - g - 1]->Some_0;
                assert(build[j] == eb[i]->Some_0);
            }
        }
        assert forall|x: int| prev <= x < end implies #[trigger] occurs32(ep, x) by {
            if x < p { assert(ep[x - prev] == gp[x - prev]); assert(ep[x - prev] as int == x); }
            else if x == p { assert(ep[g] as int == x); }
            else { assert(occurs32(rp, x)); let i2 = choose|i2: int| 0 <= i2 < rp.len() && #[trigger] rp[i2] as int == x; assert(ep[g + 1 + i2] == rp[i2]); assert(ep[g + 1 + i2] as int == x); }
        }
        assert forall|j: int| k <= j < probe.len() implies #[trigger] has_pair(ep, eb, probe[j], build[j]) by {
            if j == k { assert(ep[g] == probe[k] && eb[g] == Some(build[k])); }
            else { assert(has_pair(rp, rb, probe[j], build[j])); let i2 = choose|i2: int| 0 <= i2 < rp.len() && i2 < rb.len() && rp[i2] == probe[j] && #[trigger] rb[i2] == Some(build[j]); assert(ep[g + 1 + i2] == rp[i2] && eb[g + 1 + i2] == rb[i2]); }
        }
    }
}
