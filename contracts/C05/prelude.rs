// trusted: 64-bit target
global size_of usize == 8;
pub type MapOffset = (usize, Option<u64>);
#[verifier::external_body]
pub struct DataFusionError { _p: u8 }
pub type Result<T> = std::result::Result<T, DataFusionError>;
/// R9: stands for `internal_err!(..)` (error content not verified)
#[verifier::external_body]
pub fn make_err<T>() -> (r: Result<T>) ensures r is Err { unimplemented!() }

/// ASSUMED view of an Arrow PrimitiveArray of an integer type: a sequence of optional keys, already
/// widened to u64 by `AsPrimitive<u64>` (sign extension for the signed types: injective per type)
#[verifier::external_body]
pub struct PrimArr { _p: u8 }
impl PrimArr {
    pub uninterp spec fn keys(&self) -> Seq<Option<u64>>;
    #[verifier::external_body]
    pub fn len(&self) -> (r: usize) ensures r == self.keys().len() { unimplemented!() }
    #[verifier::external_body]
    pub fn null_count(&self) -> (r: usize)
        ensures r == 0 ==> forall|i: int| 0 <= i < self.keys().len() ==> (#[trigger] self.keys()[i]) is Some
    { unimplemented!() }
    #[verifier::external_body]
    pub fn is_null(&self, i: usize) -> (r: bool) requires i < self.keys().len() ensures r == (self.keys()[i as int] is None) { unimplemented!() }
    /// R13: stands for `unsafe { arr.value_unchecked(i) }.as_()` (value of a NULL slot is unspecified)
    #[verifier::external_body]
    pub fn key_at(&self, i: usize) -> (r: u64) requires i < self.keys().len()
        ensures self.keys()[i as int] is Some ==> r == self.keys()[i as int]->Some_0 { unimplemented!() }
    /// R1: stands for the i-th element of `arr.iter()` followed by `.as_()`
    #[verifier::external_body]
    pub fn opt_key(&self, i: usize) -> (r: Option<u64>) requires i < self.keys().len() ensures r == self.keys()[i as int] { unimplemented!() }
}
