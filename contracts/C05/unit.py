"""C05 (partial) — dense-key ("perfect hash") join map: ArrayMap build and paged lookup return exactly the
build rows whose key equals the probe key."""
import importlib.util, os
_p = os.path.join(os.path.dirname(os.path.abspath(__file__)), "..", "C14", "unit.py")
_s = importlib.util.spec_from_file_location("unit_C14_for_C05", _p)
_c14 = importlib.util.module_from_spec(_s); _s.loader.exec_module(_c14)

LEVEL = "proof"
F = "datafusion/physical-plan/src/joins/array_map.rs"
FC = "datafusion/physical-plan/src/joins/chain.rs"
IMPL = "impl ArrayMap"
WHERE_RE = r"where\s+T::Native: (?:Copy \+ )?AsPrimitive<u64>,\s*"

FILL_INV = """
        invariant
            i_next <= arr.keys().len(), array == arr,
            data@.len() == old(data)@.len(),
            build_inv(data@, next@, offset_val, arr.keys(), i_next as int),
            *num_of_distinct_key as int <= arr.keys().len() - i_next,
        decreases i_next
"""
ARGS = "build, self.next@, array.keys()"
LOOKUP_CONTRACT = """    requires
        am_wf(*self, build),
        1 <= limit <= usize::MAX / 2,
        array.keys().len() <= u32::MAX,
        offset_ok(self.next@, array.keys(), current_offset),
        // the no-duplicates representation only produces / accepts row offsets
        self.next@.len() == 0 ==> current_offset.1 is None,
    ensures
        r is Ok,
        // pages concatenate to the unpaged answer, which is the join itself: for every non-NULL probe row, in order,
        // every build row with an equal key, ascending (nothing lost, duplicated or invented)
        final(build_indices)@ + res_b(""" + ARGS + """, r) == off_b(""" + ARGS + """, current_offset),
        final(probe_indices)@ + res_a(""" + ARGS + """, r) == off_a(""" + ARGS + """, current_offset),
        final(build_indices)@.len() == final(probe_indices)@.len(),
        final(build_indices)@.len() <= limit,
        r matches Ok(Some(o)) ==> offset_ok(self.next@, array.keys(), o)
                      && (self.next@.len() == 0 ==> o.1 is None)
                      && (o.0 > current_offset.0 || final(build_indices)@.len() >= 1),"""

KEYS = "build, arr.keys()"
INV_COMMON = """
            arr == array, am_wf(*self, build),
            !have_null ==> forall|i: int| 0 <= i < arr.keys().len() ==> (#[trigger] arr.keys()[i]) is Some,
            arr.keys().len() <= u32::MAX, 1 <= limit <= usize::MAX / 2,
            build_indices@.len() == probe_indices@.len(),
"""
INV_NODUP = """
        invariant""" + INV_COMMON + """
            self.next@.len() == 0, current_offset.1 is None, current_offset.0 <= arr.keys().len(),
            build_indices@.len() <= limit,
            build_indices@ + rest_b(""" + KEYS + """, prob_idx as int) == rest_b(""" + KEYS + """, current_offset.0 as int),
            probe_indices@ + rest_a(""" + KEYS + """, prob_idx as int) == rest_a(""" + KEYS + """, current_offset.0 as int),
"""
INV_CHAINED = """
        invariant""" + INV_COMMON + """
            self.next@.len() != 0, to_skip <= arr.keys().len(),
            build_indices@.len() + remaining_output == limit,
            to_skip > current_offset.0 || current_offset.1 is None,
            build_indices@ + rest_b(""" + KEYS + """, prob_side_idx as int) == off_b(build, self.next@, arr.keys(), current_offset),
            probe_indices@ + rest_a(""" + KEYS + """, prob_side_idx as int) == off_a(build, self.next@, arr.keys(), current_offset),
"""

VERUS = [dict(
    name="array_map",
    uses="use vstd::prelude::*;\n",
    prelude="prelude.rs",
    proofs_header="pub type IDX = u32;\nspec fn dir_forward() -> bool { false }\n",
    proofs=["../C14/proofs_common.rs", "proofs.rs"],
    witness="witness.rs", rlimit=120, min_verified=8, twins=[],
    items=[
        dict(file=F, path=["struct ArrayMap"]),
        dict(file=F, path=[IMPL, "fn calculate_range"], wrap=IMPL, ret="r",
             contract="    ensures r == wsub(max_val, min_val),"),
        dict(file=F, path=[IMPL, "fn key_to_index"], wrap=IMPL, ret="r",
             contract="""    ensures r is Some <==> (wsub(key, offset) as int) < data_len,
            r is Some ==> r->Some_0 as int == wsub(key, offset) as int,"""),
        dict(file=F, path=[IMPL, "fn get_value"], wrap=IMPL, ret="r",
             edits=[dict(rule="R6", find="(value != 0).then_some(value)", replace="if value != 0 { Some(value) } else { None }")],
             contract="""    ensures r is Some <==> head_of(self.data@, self.offset, key) != 0,
            r is Some ==> r->Some_0 == head_of(self.data@, self.offset, key),"""),
        dict(file=F, path=[IMPL, "fn fill_data"], wrap=IMPL, ret="r", loop_count=1,
             edits=[dict(rule="R3", find="fn fill_data<T: ArrowNumericType>(", replace="fn fill_data("),
                    dict(rule="R3", find="array: &ArrayRef,", replace="array: &PrimArr,"),
                    dict(rule="R3", regex=WHERE_RE, replace="", count=1),
                    dict(rule="R3", find="let arr = array.as_primitive::<T>();", replace="let arr = array;"),
                    dict(rule="R1", find="for (i, val) in arr.iter().enumerate().rev() {",
                         replace="let mut i_next: usize = arr.len();\n        while i_next > 0 {\n            i_next = i_next - 1; let i = i_next; let val = arr.opt_key(i);"),
                    dict(rule="R3", find="let key: u64 = val.as_();", replace="let key: u64 = val;"),
                    dict(rule="R9", regex=r"return internal_err!\((?:[^()]|\([^()]*\))*\);", replace="return make_err();", count=1)],
             contract="""    requires
        forall|j: int| 0 <= j < old(data)@.len() ==> old(data)@[j] == 0,
        old(next)@.len() == 0,
        array.keys().len() < u32::MAX,
        *old(num_of_distinct_key) == 0,
    ensures
        final(data)@.len() == old(data)@.len(),
        // the finished map: for EVERY key the rows reachable from its head are exactly the build rows with that key, ascending
        r is Ok ==> build_inv(final(data)@, final(next)@, offset_val, array.keys(), 0),""",
             loops={0: FILL_INV},
             proofs=[
                 dict(at="loop_body_start:0", text="""
            let ghost d0 = data@; let ghost n0 = next@;"""),
                 dict(at="loop_body_end:0", text="""
            proof { lemma_fill_step(d0, n0, data@, next@, offset_val, arr.keys(), i_next as int); }"""),
             ]),
        dict(file=F, path=[IMPL, "fn try_new"], wrap=IMPL, ret="r",
             edits=[dict(rule="R3", find="array: &ArrayRef,", replace="array: &PrimArr,"),
                    dict(rule="R9", regex=r"return internal_err!\((?:[^()]|\([^()]*\))*\);", replace="return make_err();", count=1),
                    # the type dispatch macro is replaced by the call it expands to for the (abstracted) key type
                    dict(rule="R3", regex=r"downcast_supported_integer!\(\s*array\.data_type\(\) => \(\s*fill_data,\s*array,\s*min_val,\s*&mut data,\s*&mut next,\s*&mut num_of_distinct_key\s*\)\s*\)\?;",
                         replace="Self::fill_data(array, min_val, data.as_mut_slice(), &mut next, &mut num_of_distinct_key)?;", count=1)],
             contract="""    requires array.keys().len() < u32::MAX,
    ensures r is Ok ==> am_wf(r->Ok_0, array.keys()) && r->Ok_0.offset == min_val
                        && r->Ok_0.data@.len() == wsub(max_val, min_val) + 1,"""),
        dict(file=FC, path=["fn traverse_chain"], ret="r", edits=_c14.mono("u32"), contract=_c14.CONTRACT, loop_count=1,
             loops={0: _c14.INV}, proofs=_c14.VERUS[0]["items"][0]["proofs"]),
        dict(file=F, path=[IMPL, "fn lookup_and_get_indices"], wrap=IMPL, ret="r", loop_count=2,
             edits=[dict(rule="R3", find="fn lookup_and_get_indices<T: ArrowNumericType>(", replace="fn lookup_and_get_indices("),
                    dict(rule="R3", find="array: &ArrayRef,", replace="array: &PrimArr,"),
                    dict(rule="R3", regex=WHERE_RE, replace="", count=1),
                    dict(rule="R3", find="let arr = array.as_primitive::<T>();", replace="let arr = array;"),
                    dict(rule="R13", regex=r"unsafe \{ arr\.value_unchecked\((\w+)\) \}\.as_\(\)", replace=r"arr.key_at(\1)", count=2),
                    dict(rule="R3", find="&self.next,", replace="self.next.as_slice(),", count=2),
                    # ghost parameter: the build-side key column the map was created from (erased at run time)
                    dict(rule="G1", find="        &self,\n        array: &PrimArr,", replace="        &self,\n        Ghost(build): Ghost<Seq<Option<u64>>>,\n        array: &PrimArr,"),
                    dict(rule="R18", elim_continue=True)],
             contract=LOOKUP_CONTRACT,
             loops={0: INV_NODUP, 1: INV_CHAINED},
             proofs=[
                 dict(at="loop_body_start:0", text="""
                proof {
                    let row = prob_idx as int;
                    assert(rest_b(""" + KEYS + """, row) == join_row(""" + KEYS + """, row) + rest_b(""" + KEYS + """, row + 1));
                    assert(rest_a(""" + KEYS + """, row) == Seq::new(join_row(""" + KEYS + """, row).len(), |q: int| row as u32) + rest_a(""" + KEYS + """, row + 1));
                    assert(Seq::<u64>::empty() + rest_b(""" + KEYS + """, row + 1) =~= rest_b(""" + KEYS + """, row + 1));
                    assert(Seq::<u32>::new(0, |q: int| row as u32) + rest_a(""" + KEYS + """, row + 1) =~= rest_a(""" + KEYS + """, row + 1));
                    if arr.keys()[row] is Some {
                        let k = arr.keys()[row]->Some_0;
                        assert(am_chain(self.next@, head_of(self.data@, self.offset, k)) == rows_with_key(build, k, 0));
                    }
                }"""),
                 dict(at="loop_body_end:0", text="""
                proof {
                    let row = prob_idx as int;
                    let rm = join_row(""" + KEYS + """, row);
                    if arr.keys()[row] is Some && head_of(self.data@, self.offset, arr.keys()[row]->Some_0) != 0 {
                        let h = head_of(self.data@, self.offset, arr.keys()[row]->Some_0);
                        assert(rm =~= seq![(h - 1) as u64]);
                        assert(build_indices@ + rest_b(""" + KEYS + """, row + 1) =~= build_indices@.drop_last() + (rm + rest_b(""" + KEYS + """, row + 1)));
                        assert(Seq::new(rm.len(), |q: int| row as u32) =~= seq![row as u32]);
                        assert(probe_indices@ + rest_a(""" + KEYS + """, row + 1) =~= probe_indices@.drop_last() + (seq![row as u32] + rest_a(""" + KEYS + """, row + 1)));
                    }
                }"""),
                 dict(at="loop_body_start:1", text="""
                proof {
                    let row = prob_side_idx as int;
                    assert(rest_b(""" + KEYS + """, row) == join_row(""" + KEYS + """, row) + rest_b(""" + KEYS + """, row + 1));
                    assert(rest_a(""" + KEYS + """, row) == Seq::new(join_row(""" + KEYS + """, row).len(), |q: int| row as u32) + rest_a(""" + KEYS + """, row + 1));
                    assert(Seq::<u64>::empty() + rest_b(""" + KEYS + """, row + 1) =~= rest_b(""" + KEYS + """, row + 1));
                    assert(Seq::<u32>::new(0, |q: int| row as u32) + rest_a(""" + KEYS + """, row + 1) =~= rest_a(""" + KEYS + """, row + 1));
                    if arr.keys()[row] is Some {
                        let k = arr.keys()[row]->Some_0;
                        assert(am_chain(self.next@, head_of(self.data@, self.offset, k)) == rows_with_key(build, k, 0));
                    }
                }"""),
             ]),
    ],
    mutants=[
        dict(name="index_bound_inclusive", item="key_to_index", find="if idx < data_len as u64 {", replace="if idx <= data_len as u64 {"),
        dict(name="range_operands_swapped", item="calculate_range", find="max_val.wrapping_sub(min_val)", replace="min_val.wrapping_sub(max_val)"),
        dict(name="absent_marker_wrong", item="get_value", find="if value != 0 {", replace="if value != 1 {"),
        dict(name="head_stored_zero_based", item="fill_data", find="data[idx] = (i) as u32 + 1;", replace="data[idx] = (i) as u32;"),
        dict(name="chain_link_self", item="fill_data", find="next[i] = data[idx]", replace="next[i] = (i) as u32 + 1"),
        dict(name="build_index_one_based", item="lookup_and_get_indices", find="build_indices.push((build_value - 1) as u64);", replace="build_indices.push(build_value as u64);"),
        dict(name="probe_index_shifted", item="lookup_and_get_indices", find="probe_indices.push(prob_idx as u32);", replace="probe_indices.push((prob_idx + 1) as u32);"),
        dict(name="resume_zero_repeats_row", item="lookup_and_get_indices", find="(idx, Some(0)) => idx + 1,", replace="(idx, Some(0)) => idx,"),
        dict(name="page_limit_off_by_one", item="lookup_and_get_indices", find="if build_indices.len() == limit {", replace="if build_indices.len() > limit {"),
        dict(name="null_probe_not_skipped", item="lookup_and_get_indices", find="if !(have_null && arr.is_null(prob_side_idx)) {", replace="if !(false && arr.is_null(prob_side_idx)) {"),
        # (a wrong `is_last` flag is harmless here: the loop head re-checks `remaining_output == 0`; such a mutant is accepted, rightly)
        dict(name="exhausted_page_not_checked", item="lookup_and_get_indices", find="if remaining_output == 0 {", replace="if remaining_output == usize::MAX {"),
    ],
)]
FU = "datafusion/physical-plan/src/joins/utils.rs"
_DBG = r"debug_assert(?:_eq)?!\((?:[^()]|\((?:[^()]|\((?:[^()]|\([^()]*\))*\))*\))*\);"
def _idx_edits(name):
    return [
        dict(rule="R3", find="fn %s<T: ArrowPrimitiveType>(" % name, replace="fn %s(" % name),
        dict(rule="R3", find="input_indices: &PrimitiveArray<T>,", replace="input_indices: &IdxArr,"),
        dict(rule="R3", find=") -> PrimitiveArray<T>", replace=") -> IdxArr"),
        dict(rule="R3", regex=r"where\s+NativeAdapter<T>: From<<T as ArrowPrimitiveType>::Native>,\s*", replace="", count=1),
        # debug assertions state the preconditions (no nulls, ascending): they are the `requires` of the contract
        dict(rule="R9", regex=_DBG, replace="", count=2),
        dict(rule="R3", regex=r"Vec<T::Native>", replace="Vec<u32>", count="any"),
        dict(rule="R3", regex=r"let mut output = Vec::with_capacity\(", replace="let mut output: Vec<u32> = Vec::with_capacity(", count="any"),
        dict(rule="R13", regex=r"range\.len\(\)", replace="range_len(&range)", count="any"),
        dict(rule="R1", find="for &v in input_indices.values() {",
             replace="let vals_ = input_indices.values();\n    let mut k_: usize = 0;\n    while k_ < vals_.len() {\n        let v = vals_[k_]; k_ = k_ + 1;"),
        dict(rule="R3", find="v.as_usize()", replace="(v as usize)"),
        dict(rule="R13", regex=r"output\.extend\(\(([\w.]+)\.\.([\w.]+)\)\.map\(\|idx\| \{\s*T::Native::from_usize\(idx\)\.expect\(\"[^\"]*\"\)\s*\}\)\);",
             replace=r"extend_with_range(&mut output, \1, \2);", count="any"),
        dict(rule="R13", regex=r"prev_idx\.replace\(idx\)", replace="opt_replace(&mut prev_idx, idx)", count="any"),
        dict(rule="R13", find="PrimitiveArray::<T>::new(output.into(), None)", replace="IdxArr::from_vec(output)"),
    ]
VERUS.append(dict(
    name="join_index_kernels",
    uses="use vstd::prelude::*;\nuse std::ops::Range;\n",
    prelude="prelude_idx.rs", proofs="proofs_idx.rs", witness="witness_idx.rs", rlimit=120, min_verified=4, twins=[],
    std_specs=False,
    items=[
        dict(file=FU, path=["fn get_anti_indices"], ret="r", loop_count=1, edits=_idx_edits("get_anti_indices"),
             contract="""    requires sorted(input_indices.view()), range.start <= range.end, range.end <= u32::MAX,
    ensures
        // the rows of the range that were NOT matched: ascending, each once, nothing else
        anti_lists(r.view(), input_indices.view(), range.start as int, range.end as int),""",
             loops={0: """
        invariant_except_break
            forall|j: int| 0 <= j < k_ ==> ((#[trigger] vals_@[j]) as int) < next_unmatched_idx,
        invariant
            vals_@ == input_indices.view(), sorted(vals_@), k_ <= vals_@.len(),
            range.start <= next_unmatched_idx <= range.end, range.end <= u32::MAX,
            anti_lists(output@, vals_@, range.start as int, next_unmatched_idx as int),
            forall|j: int| k_ <= j < vals_@.len() ==> ((#[trigger] vals_@[j]) as int) < range.start || next_unmatched_idx <= vals_@[j] + 1,
        ensures
            range.start <= next_unmatched_idx <= range.end,
            anti_lists(output@, vals_@, range.start as int, next_unmatched_idx as int),
            forall|x: int| next_unmatched_idx <= x < range.end ==> !occurs(vals_@, x),
        decreases vals_@.len() - k_
"""},
             proofs=[
                 dict(at="before_loop:0", text="""
    proof { assert(anti_lists(output@, vals_@, range.start as int, range.start as int)); }"""),
                 dict(at="loop_body_start:0", text="""
        let ghost k0 = k_ as int; let ghost nu0 = next_unmatched_idx as int; let ghost out0 = output@;"""),
                 dict(at="after_loop:0", text="""
    let ghost out1 = output@;"""),
                 dict(at="before:IdxArr::from_vec(output)", text="""
    proof {
        if next_unmatched_idx < range.end {
            lemma_anti_extend(out1, vals_@, range.start as int, next_unmatched_idx as int, range.end as int);
            assert(output@ =~= out1 + run(next_unmatched_idx as int, range.end as int));
        }
    }
    """),
                 dict(at="loop_body_end:0", text="""
        proof {
            let vv = vals_@; let idx = vv[k0] as int;
            // rows nu0 .. idx were not matched: earlier indices are below nu0, later ones at least idx
            assert forall|x: int| nu0 <= x < idx implies !occurs(vv, x) by {
                if occurs(vv, x) { let j = choose|j: int| 0 <= j < vv.len() && #[trigger] vv[j] as int == x; if j < k0 { } else { assert(vv[k0] <= vv[j]); } }
            }
            if nu0 < idx { lemma_anti_extend(out0, vv, range.start as int, nu0, idx); assert(output@ =~= out0 + run(nu0, idx)); }
            let mid = if nu0 < idx { idx } else { nu0 };
            assert forall|x: int| mid <= x < idx + 1 implies occurs(vv, x) by { assert(vv[k0] as int == idx); }
            lemma_anti_skip(output@, vv, range.start as int, mid, idx + 1);
        }"""),
             ]),
        dict(file=FU, path=["fn get_semi_indices"], ret="r", loop_count=1, edits=_idx_edits("get_semi_indices"),
             contract="""    requires sorted(input_indices.view()), range.start <= range.end,
    ensures
        // the rows of the range that WERE matched: in order, duplicates removed, nothing else
        semi_lists(r.view(), input_indices.view(), range.start as int, range.end as int),""",
             loops={0: """
        invariant_except_break
            forall|j: int| 0 <= j < k_ ==> ((#[trigger] vals_@[j]) as int) < range.end,
            prev_idx is None ==> output@.len() == 0 && forall|j: int| 0 <= j < k_ ==> ((#[trigger] vals_@[j]) as int) < range.start,
            prev_idx matches Some(p) ==> output@.len() > 0 && output@.last() as int == p && occurs_before(vals_@, k_ as int, p as int)
                && forall|j: int| 0 <= j < k_ ==> ((#[trigger] vals_@[j]) as int) <= p,
        invariant
            vals_@ == input_indices.view(), sorted(vals_@), k_ <= vals_@.len(), range.start <= range.end,
            semi_partial(output@, vals_@, range.start as int, range.end as int),
            forall|j: int| 0 <= j < k_ && range.start <= ((#[trigger] vals_@[j]) as int) && (vals_@[j] as int) < range.end ==> occurs(output@, vals_@[j] as int),
        ensures
            semi_lists(output@, vals_@, range.start as int, range.end as int),
        decreases vals_@.len() - k_
"""},
             proofs=[
                 dict(at="loop_body_start:0", text="""
        let ghost k0 = k_ as int; let ghost out0 = output@;"""),
                 dict(at="loop_body_end:0", text="""
        proof {
            let vv = vals_@; let idx = vv[k0] as int;
            lemma_semi_step(out0, output@, vv, k0, range.start as int, range.end as int);
            if range.start <= idx && idx < range.end {
                assert(occurs(vv, idx)) by { assert(vv[k0] as int == idx); }
                if output@.len() != out0.len() {
                    assert(output@ == out0.push(vv[k0]));
                    if out0.len() > 0 {
                        let p = out0.last() as int;
                        let jp = choose|j: int| 0 <= j < k0 && j < vv.len() && #[trigger] vv[j] as int == p;
                        assert(vv[jp] <= vv[k0]);
                        assert(p < idx);
                    }
                    assert forall|i: int, j: int| 0 <= i < j < output@.len() implies output@[i] < output@[j] by {
                        if j < out0.len() { } else { assert(out0[i] <= out0.last()); }
                    }
                }
                assert(occurs(output@, idx)) by { assert(output@[output@.len() - 1] as int == idx); }
            }
        }"""),
             ]),
    ],
    mutants=[
        dict(name="anti_matched_row_not_skipped", item="get_anti_indices", find="next_unmatched_idx = idx + 1;", replace="next_unmatched_idx = idx;"),
        dict(name="anti_first_row_treated_as_outside", item="get_anti_indices", find="if idx < range.start {", replace="if idx <= range.start {"),
        dict(name="anti_end_inclusive", item="get_anti_indices", find="if idx >= range.end {", replace="if idx > range.end {"),
        dict(name="anti_tail_drops_last_row", item="get_anti_indices", find="if next_unmatched_idx < range.end {", replace="if next_unmatched_idx + 1 < range.end {"),
        dict(name="semi_duplicates_kept", item="get_semi_indices", find="!= Some(idx)", replace="!= Some(idx + 1)"),
        dict(name="semi_first_row_dropped", item="get_semi_indices", find="if idx < range.start {", replace="if idx <= range.start {"),
        dict(name="semi_end_inclusive", item="get_semi_indices", find="if idx >= range.end {", replace="if idx > range.end {"),
    ],
))
# ------------------------------------------------------------------------------------------
# order-preserving outer (Right / Full) join index lists: append_probe_indices_in_order
# ------------------------------------------------------------------------------------------
VERUS.append(dict(
    name="outer_join_index_lists",
    uses="use vstd::prelude::*;\nuse std::ops::Range;\n",
    prelude="prelude_outer.rs", proofs="proofs_outer.rs", witness="witness_outer.rs", rlimit=120, min_verified=2, twins=[],
    std_specs=False,
    items=[
        dict(file=FU, path=["fn append_probe_indices_in_order"], ret="r", loop_count=3,
             edits=[dict(rule="R3", find="build_indices: &PrimitiveArray<UInt64Type>,", replace="build_indices: &U64Arr,"),
                    dict(rule="R3", find="probe_indices: &PrimitiveArray<UInt32Type>,", replace="probe_indices: &U32Arr,"),
                    dict(rule="R3", find=") -> (PrimitiveArray<UInt64Type>, PrimitiveArray<UInt32Type>) {", replace=") -> (OptU64Arr, U32Arr) {"),
                    dict(rule="R9", regex=r"debug_assert_eq!\(build_indices\.len\(\), probe_indices\.len\(\)\);", replace="", count=1),
                    dict(rule="R1", regex=r"for \(build_index, probe_index\) in build_indices\s*\.values\(\)\s*\.into_iter\(\)\s*\.zip\(probe_indices\.values\(\)\)\s*\{",
                         replace="let bvals_ = build_indices.values(); let pvals_ = probe_indices.values();\n    for k_ in 0..bvals_.len() {\n        let build_index = &bvals_[k_]; let probe_index = &pvals_[k_];", count=1),
                    dict(rule="R3", find="prev_index = probe_index + 1;", replace="prev_index = *probe_index + 1;")],
             contract="""    requires
        build_indices.view().len() == probe_indices.view().len(), sorted32(probe_indices.view()),
        range.start <= range.end, range.end <= u32::MAX,
        forall|k: int| 0 <= k < probe_indices.view().len() ==> range.start <= (#[trigger] probe_indices.view()[k]) && probe_indices.view()[k] < range.end,
    ensures
        // probe rows of the range in order: a row without a match once, with a NULL build index; a matched row once per match,
        // with its build index, in the order of the matches
        r.1.view() == emit_p(probe_indices.view(), range.end as int, range.start as int, 0),
        r.0.view() == emit_b(build_indices.view(), probe_indices.view(), range.end as int, range.start as int, 0),
        // ... which means, row by row (lemma_emit_meaning): the probe rows never go backwards and stay in the range; every probe row
        // of the range is present; a NULL build index only on a row without any match; every input pair present, nothing invented
        emit_post(build_indices.view(), probe_indices.view(), range.end as int, range.start as int, 0, r.1.view(), r.0.view()),""",
             loops={0: """
        invariant
            bvals_@ == build_indices.view(), pvals_@ == probe_indices.view(), bvals_@.len() == pvals_@.len(), sorted32(pvals_@),
            range.start <= range.end, range.end <= u32::MAX,
            forall|k: int| 0 <= k < pvals_@.len() ==> range.start <= (#[trigger] pvals_@[k]) && pvals_@[k] < range.end,
            range.start <= prev_index <= range.end,
            new_probe_indices.view() + emit_p(pvals_@, range.end as int, prev_index as int, k_ as int)
                == emit_p(pvals_@, range.end as int, range.start as int, 0),
            new_build_indices.view() + emit_b(bvals_@, pvals_@, range.end as int, prev_index as int, k_ as int)
                == emit_b(bvals_@, pvals_@, range.end as int, range.start as int, 0),
""", 1: """
            invariant
                *probe_index < range.end, range.end <= u32::MAX,
                new_probe_indices.view() == np0 + gap_p(prev_index as int, if prev_index <= *probe_index { value as int } else { prev_index as int }),
                new_build_indices.view() == nb0 + gap_b(prev_index as int, if prev_index <= *probe_index { value as int } else { prev_index as int }),
""", 2: """
        invariant
            range.end <= u32::MAX, prev_index <= range.end,
            new_probe_indices.view() == np1 + gap_p(prev_index as int, value as int),
            new_build_indices.view() == nb1 + gap_b(prev_index as int, value as int),
"""},
             proofs=[
                 dict(at="body_start", text="""
    proof { lemma_emit_meaning(build_indices.view(), probe_indices.view(), range.end as int, range.start as int, 0); }"""),
                 dict(at="loop_body_start:0", text="""
        let ghost np_in = new_probe_indices.view(); let ghost nb_in = new_build_indices.view(); let ghost np_prev = prev_index;"""),
                 dict(at="before_loop:1", text="""
        let ghost np0 = new_probe_indices.view(); let ghost nb0 = new_build_indices.view();
        proof {
            assert(np0 + gap_p(prev_index as int, prev_index as int) =~= np0);
            assert(nb0 + gap_b(prev_index as int, prev_index as int) =~= nb0);
        }"""),
                 dict(at="loop_body_end:1", text="""
            proof {
                assert(gap_p(prev_index as int, value + 1) =~= gap_p(prev_index as int, value as int).push(value));
                assert(gap_b(prev_index as int, value + 1) =~= gap_b(prev_index as int, value as int).push(None::<u64>));
            }"""),
                 dict(at="loop_body_end:0", text="""
        proof {
            let pv = pvals_@; let bv = bvals_@; let k = k_ as int; let e = range.end as int;
            let p = pv[k] as int; let prev0 = (prev_index as int);   // prev_index already advanced: prev0 == p + 1
            // unfolding of the definition at pair k
            let g_p = gap_p(np_prev as int, p); let g_b = gap_b(np_prev as int, p);
            assert(emit_p(pv, e, np_prev as int, k) == g_p + seq![pv[k]] + emit_p(pv, e, p + 1, k + 1));
            assert(emit_b(bv, pv, e, np_prev as int, k) == g_b + seq![Some(bv[k])] + emit_b(bv, pv, e, p + 1, k + 1));
            assert(new_probe_indices.view() =~= np_in + g_p + seq![pv[k]]);
            assert(new_build_indices.view() =~= nb_in + g_b + seq![Some(bv[k])]);
            assert((np_in + g_p + seq![pv[k]]) + emit_p(pv, e, p + 1, k + 1) =~= np_in + (g_p + seq![pv[k]] + emit_p(pv, e, p + 1, k + 1)));
            assert((nb_in + g_b + seq![Some(bv[k])]) + emit_b(bv, pv, e, p + 1, k + 1) =~= nb_in + (g_b + seq![Some(bv[k])] + emit_b(bv, pv, e, p + 1, k + 1)));
        }"""),
                 dict(at="before_loop:2", text="""
    let ghost np1 = new_probe_indices.view(); let ghost nb1 = new_build_indices.view();
    proof {
        assert(np1 + gap_p(prev_index as int, prev_index as int) =~= np1);
        assert(nb1 + gap_b(prev_index as int, prev_index as int) =~= nb1);
    }"""),
                 dict(at="loop_body_end:2", text="""
        proof {
            assert(gap_p(prev_index as int, value + 1) =~= gap_p(prev_index as int, value as int).push(value));
            assert(gap_b(prev_index as int, value + 1) =~= gap_b(prev_index as int, value as int).push(None::<u64>));
        }"""),
             ]),
    ],
    mutants=[
        dict(name="outer_gap_starts_one_late", item="append_probe_indices_in_order", find="for value in prev_index..*probe_index", replace="for value in prev_index + 1..*probe_index"),
        dict(name="outer_prev_not_advanced", item="append_probe_indices_in_order", find="prev_index = *probe_index + 1;", replace="prev_index = *probe_index;"),
        dict(name="outer_tail_dropped", item="append_probe_indices_in_order", find="for value in prev_index..range.end as u32", replace="for value in prev_index..prev_index"),
        dict(name="outer_pair_gets_null_build", item="append_probe_indices_in_order", find="new_build_indices.append_value(*build_index);", replace="new_build_indices.append_null();"),
        dict(name="outer_gap_row_gets_build_index", item="append_probe_indices_in_order", find="new_probe_indices.append_value(value);\n            new_build_indices.append_null();", replace="new_probe_indices.append_value(value);\n            new_build_indices.append_value(*build_index);"),
    ],
))
KANI = [dict(package="datafusion-common", module="common/utils.rs", timeout=900, harnesses=[
    dict(name="c05_join_type_algebra", complete=True,
         what="JoinType::{swap, supports_swap, is_outer, empty_build_side_produces_empty_result, empty_map_produces_empty_result} for all ten join types against the nested-loop definition on inputs of at most one row per side (presence of each row and the match flag symbolic): swap == join of the exchanged inputs, involution, soundness of the emptiness claims, NULL padding only in outer joins"),
    dict(name="c05_join_type_emptiness_claims_are_exact", complete=True,
         what="the emptiness claims and is_outer are exact (a join type for which the claim is false can produce such a row)"),
])]
TRUSTED = ["Kani/CBMC; the nested-loop definition of the ten join types on at most one row per side is written in the harness (kani/common/utils.rs) and is the specification, not a model of the code",
           "Verus 0.2026.09.13 + bundled Z3", "global size_of usize == 8",
           "ASSUMED view of an Arrow PrimitiveArray as Seq<Option<u64>> (len / null_count / is_null / value_unchecked+as_ / iter) in prelude.rs",
           "rewrites R1 (reverse enumerate loop -> descending while loop), R3 (generic key type T abstracted: the u64 image of the key; type-dispatch macro replaced by the direct call), R6, R9, R13, R18 (continue elimination), G1 (ghost parameter naming the build column)",
           "traverse_chain contract re-proved in this unit (u32, reversed insertion)"]
ASSUMPTIONS = ["build side has fewer than u32::MAX rows (checked by try_create_array_map before ArrayMap::try_new)",
               "probe batch rows <= u32::MAX, 1 <= limit <= usize::MAX/2, incoming offset valid (produced by an earlier call or (0, None))",
               "AsPrimitive<u64> is injective on each supported integer type (sign extension), so equal u64 images mean equal keys"]
NOT_COVERED = ["every other join operator and join type of C05 (hash join stream, mark emission, the emission logic around the index kernels, sort-merge, nested loop, symmetric hash, cross, piecewise merge)",
               "contain_keys (Arrow BooleanBuffer::collect_bool closure), the downcast_supported_integer! dispatch, estimate_memory_size, try_create_array_map's admission logic",
               "num_of_distinct_key (only shown not to overflow)"]
TRUSTED += ["ASSUMED contracts of Arrow's UInt64Builder / UInt32Builder (append_value / append_null / finish) and null-free index array views (prelude_outer.rs); zip loop rewritten to an index loop (R1)"]
TRUSTED += ["ASSUMED view of a null-free UInt32 index array (values / new) in prelude_idx.rs; get_anti_indices / get_semi_indices monomorphised to u32 (R3), debug assertions turned into the preconditions they state (R9)"]
ASSUMPTIONS += ["append_probe_indices_in_order: build/probe index arrays of equal length, probe indices ascending and inside the range (as produced by the lookup), range.end <= u32::MAX"]
ASSUMPTIONS += ["get_anti_indices / get_semi_indices: input indices ascending and without nulls (the functions' debug assertions), range.end <= u32::MAX (the `expect` in the code)"]
EXPLANATION = "ArrayMap::try_new/fill_data proved to build, for EVERY key, a chain that lists exactly the build rows with that key in ascending order; lookup_and_get_indices proved to return, page by page, exactly the join of the probe column with the build column (NULL probes match nothing), for both representations (no duplicates / chained) and every resume offset."
