// trusted: 64-bit target
global size_of usize == 8;
/// ASSUMED view of an Arrow UInt32Array / PrimitiveArray<UInt32Type> without nulls: its values
#[verifier::external_body]
pub struct IdxArr { _p: u8 }
impl IdxArr {
    pub uninterp spec fn view(&self) -> Seq<u32>;
    #[verifier::external_body]
    pub fn values(&self) -> (r: &[u32]) ensures r@ == self.view() { unimplemented!() }
    #[verifier::external_body]
    pub fn len(&self) -> (r: usize) ensures r == self.view().len() { unimplemented!() }
    /// R13: stands for `PrimitiveArray::<T>::new(output.into(), None)`
    #[verifier::external_body]
    pub fn from_vec(v: Vec<u32>) -> (r: IdxArr) ensures r.view() == v@ { unimplemented!() }
}
/// `Range<usize>::len` (ExactSizeIterator): 0 for an empty or inverted range
pub fn range_len(r: &Range<usize>) -> (n: usize) ensures n == (if r.start <= r.end { r.end - r.start } else { 0 }) {
    if r.start <= r.end { r.end - r.start } else { 0 }
}
/// R13: stands for `output.extend((a..b).map(|idx| T::Native::from_usize(idx).expect(..)))`; the `expect` is the precondition
pub fn extend_with_range(output: &mut Vec<u32>, a: usize, b: usize)
    requires a <= b, b <= u32::MAX + 1,
    ensures final(output)@ == old(output)@ + Seq::new((b - a) as nat, |j: int| (a + j) as u32),
{
    let mut x = a;
    while x < b
        invariant a <= x <= b, b <= u32::MAX + 1, output@ == old(output)@ + Seq::new((x - a) as nat, |j: int| (a + j) as u32),
        decreases b - x
    {
        output.push(x as u32);
        x = x + 1;
        assert(output@ =~= old(output)@ + Seq::new((x - a) as nat, |j: int| (a + j) as u32));
    }
}
/// R13: stands for `prev_idx.replace(idx)`
pub fn opt_replace(o: &mut Option<usize>, v: usize) -> (r: Option<usize>)
    ensures r == *old(o), *final(o) == Some(v),
{
    let r = *o; *o = Some(v); r
}
