fn witness_outer(b: &U64Arr, p: &U32Arr)
    requires b.view().len() == p.view().len(), sorted32(p.view()), forall|k: int| 0 <= k < p.view().len() ==> 2 <= (#[trigger] p.view()[k]) && p.view()[k] < 9,
{
    let r = append_probe_indices_in_order(b, p, Range { start: 2, end: 9 });
    //@MUSTFAIL
}
