spec fn sorted(v: Seq<u32>) -> bool { forall|i: int, j: int| 0 <= i <= j < v.len() ==> v[i] <= v[j] }
spec fn strictly_ascending(v: Seq<u32>) -> bool { forall|i: int, j: int| 0 <= i < j < v.len() ==> v[i] < v[j] }
spec fn occurs(v: Seq<u32>, x: int) -> bool { exists|j: int| 0 <= j < v.len() && #[trigger] v[j] as int == x }
/// x occurs among the first k elements
spec fn occurs_before(v: Seq<u32>, k: int, x: int) -> bool { exists|j: int| 0 <= j < k && j < v.len() && #[trigger] v[j] as int == x }
/// `out` lists, ascending and each once, exactly the x of [lo, hi) that do NOT occur in v
spec fn anti_lists(out: Seq<u32>, v: Seq<u32>, lo: int, hi: int) -> bool {
    &&& strictly_ascending(out)
    &&& forall|i: int| 0 <= i < out.len() ==> lo <= (#[trigger] out[i]) as int && (out[i] as int) < hi && !occurs(v, out[i] as int)
    &&& forall|x: int| lo <= x < hi && !occurs(v, x) ==> #[trigger] occurs(out, x)
}
/// `out` lists, in order and each once, exactly the x of [lo, hi) that DO occur in v
spec fn semi_lists(out: Seq<u32>, v: Seq<u32>, lo: int, hi: int) -> bool {
    &&& strictly_ascending(out)
    &&& forall|i: int| 0 <= i < out.len() ==> lo <= (#[trigger] out[i]) as int && (out[i] as int) < hi && occurs(v, out[i] as int)
    &&& forall|x: int| lo <= x < hi && occurs(v, x) ==> #[trigger] occurs(out, x)
}
spec fn run(a: int, b: int) -> Seq<u32> { Seq::new((b - a) as nat, |j: int| (a + j) as u32) }
/// appending the run [a, b) of unmatched rows keeps the listing exact
proof fn lemma_anti_extend(out: Seq<u32>, v: Seq<u32>, lo: int, a: int, b: int)
    requires anti_lists(out, v, lo, a), 0 <= lo <= a <= b <= u32::MAX, forall|x: int| a <= x < b ==> !occurs(v, x),
    ensures anti_lists(out + run(a, b), v, lo, b),
{
    let o2 = out + run(a, b);
    assert forall|i: int, j: int| 0 <= i < j < o2.len() implies o2[i] < o2[j] by {
        if j < out.len() { } else if i < out.len() { assert(o2[i] == out[i]); assert(o2[j] == (a + (j - out.len())) as u32); }
        else { assert(o2[i] == (a + (i - out.len())) as u32); assert(o2[j] == (a + (j - out.len())) as u32); }
    }
    assert forall|i: int| 0 <= i < o2.len() implies lo <= (#[trigger] o2[i]) as int && (o2[i] as int) < b && !occurs(v, o2[i] as int) by {
        if i < out.len() { assert(o2[i] == out[i]); } else { assert(o2[i] == (a + (i - out.len())) as u32); }
    }
    assert forall|x: int| lo <= x < b && !occurs(v, x) implies #[trigger] occurs(o2, x) by {
        if x < a {
            assert(occurs(out, x));
            let j = choose|j: int| 0 <= j < out.len() && #[trigger] out[j] as int == x;
            assert(o2[j] as int == x);
        } else {
            let j = out.len() + (x - a);
            assert(o2[j] == (a + (j - out.len())) as u32);
            assert(o2[j] as int == x);
        }
    }
}
/// moving the upper end past matched rows changes nothing
proof fn lemma_anti_skip(out: Seq<u32>, v: Seq<u32>, lo: int, a: int, b: int)
    requires anti_lists(out, v, lo, a), a <= b, forall|x: int| a <= x < b ==> occurs(v, x),
    ensures anti_lists(out, v, lo, b),
{
    assert forall|x: int| lo <= x < b && !occurs(v, x) implies #[trigger] occurs(out, x) by { if x >= a { assert(occurs(v, x)); } }
}
/// what the dedup loop has established so far: ascending, in range, only matched rows
spec fn semi_partial(out: Seq<u32>, v: Seq<u32>, lo: int, hi: int) -> bool {
    &&& strictly_ascending(out)
    &&& forall|i: int| 0 <= i < out.len() ==> lo <= (#[trigger] out[i]) as int && (out[i] as int) < hi && occurs(v, out[i] as int)
}
/// frame facts of one loop iteration: the output only grows at its end
proof fn lemma_semi_step(out0: Seq<u32>, out1: Seq<u32>, v: Seq<u32>, k0: int, lo: int, hi: int)
    requires out1 == out0 || (0 <= k0 < v.len() && out1 == out0.push(v[k0])),
    ensures forall|x: int| occurs(out0, x) ==> occurs(out1, x),
{
    assert forall|x: int| occurs(out0, x) implies occurs(out1, x) by {
        let j = choose|j: int| 0 <= j < out0.len() && #[trigger] out0[j] as int == x;
        assert(out1[j] as int == x);
    }
}
