fn witness_key() {
    let r = ArrayMap::key_to_index(3, 5, 10);
    //@MUSTFAIL
}
fn witness_build_and_probe(build_arr: &PrimArr, probe: &PrimArr, a: &mut Vec<u32>, b: &mut Vec<u64>)
    requires build_arr.keys().len() < 100, probe.keys().len() <= 10,
{
    let m = ArrayMap::try_new(build_arr, 5, 20);
    if let Ok(m) = m {
        let r = m.lookup_and_get_indices(Ghost(build_arr.keys()), probe, 3, (0, None), a, b);
        //@MUSTFAIL
    }
}
fn witness_resume(m: &ArrayMap, Ghost(build): Ghost<Seq<Option<u64>>>, probe: &PrimArr, a: &mut Vec<u32>, b: &mut Vec<u64>)
    requires am_wf(*m, build), m.next@.len() >= 1, 2 <= probe.keys().len() <= 10,
{
    let r = m.lookup_and_get_indices(Ghost(build), probe, 1, (0, Some(1)), a, b);
    //@MUSTFAIL
}
