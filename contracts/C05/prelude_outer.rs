// trusted: 64-bit target
global size_of usize == 8;
/// ASSUMED view of null-free Arrow index arrays
#[verifier::external_body]
pub struct U64Arr { _p: u8 }
impl U64Arr {
    pub uninterp spec fn view(&self) -> Seq<u64>;
    #[verifier::external_body]
    pub fn values(&self) -> (r: &[u64]) ensures r@ == self.view() { unimplemented!() }
    #[verifier::external_body]
    pub fn len(&self) -> (r: usize) ensures r == self.view().len() { unimplemented!() }
}
#[verifier::external_body]
pub struct U32Arr { _p: u8 }
impl U32Arr {
    pub uninterp spec fn view(&self) -> Seq<u32>;
    #[verifier::external_body]
    pub fn values(&self) -> (r: &[u32]) ensures r@ == self.view() { unimplemented!() }
    #[verifier::external_body]
    pub fn len(&self) -> (r: usize) ensures r == self.view().len() { unimplemented!() }
}
/// ASSUMED contracts of Arrow's UInt64Builder / UInt32Builder (append_value / append_null / finish)
#[verifier::external_body]
pub struct UInt64Builder { _p: u8 }
impl UInt64Builder {
    pub uninterp spec fn view(&self) -> Seq<Option<u64>>;
    #[verifier::external_body]
    pub fn new() -> (r: Self) ensures r.view() == Seq::<Option<u64>>::empty() { unimplemented!() }
    #[verifier::external_body]
    pub fn append_value(&mut self, v: u64) ensures final(self).view() == old(self).view().push(Some(v)) { unimplemented!() }
    #[verifier::external_body]
    pub fn append_null(&mut self) ensures final(self).view() == old(self).view().push(None) { unimplemented!() }
    #[verifier::external_body]
    pub fn finish(&mut self) -> (r: OptU64Arr) ensures r.view() == old(self).view() { unimplemented!() }
}
#[verifier::external_body]
pub struct UInt32Builder { _p: u8 }
impl UInt32Builder {
    pub uninterp spec fn view(&self) -> Seq<u32>;
    #[verifier::external_body]
    pub fn new() -> (r: Self) ensures r.view() == Seq::<u32>::empty() { unimplemented!() }
    #[verifier::external_body]
    pub fn append_value(&mut self, v: u32) ensures final(self).view() == old(self).view().push(v) { unimplemented!() }
    #[verifier::external_body]
    pub fn finish(&mut self) -> (r: U32Arr) ensures r.view() == old(self).view() { unimplemented!() }
}
/// build-side index array with NULLs (unmatched probe rows)
#[verifier::external_body]
pub struct OptU64Arr { _p: u8 }
impl OptU64Arr { pub uninterp spec fn view(&self) -> Seq<Option<u64>>; }
