"""C11 — hash partition index equals hash modulo partition count.
Verus unit over the real text of StrengthReducedU64::{new, quotient, partition_indices}."""
LEVEL = "proof"
F = "datafusion/physical-plan/src/repartition/mod.rs"
IMPL = "impl StrengthReducedU64"

R1 = dict(rule="R1", count=2,
          regex=r"for \(index, hash\) in hash_buffer\.iter\(\)\.enumerate\(\) \{",
          replace="for index in 0..hash_buffer.len() { let hash = &hash_buffer[index];")

INV = """
    invariant
        indices@.len() == old(indices)@.len(),
        hash_buffer@.len() <= u32::MAX,
        wf_reducer(self, indices@.len() as u64),
        indices@.len() >= 1,
        forall|p: int| 0 <= p < indices@.len() ==>
            (#[trigger] indices@[p])@ == old(indices)@[p]@ + routed(hash_buffer@, indices@.len() as int, p, index as int),
"""

VERUS = [dict(
    name="strength_reduced",
    uses="use vstd::prelude::*;\nuse vstd::arithmetic::div_mod::*;\nuse vstd::arithmetic::mul::*;\n",
    prelude="prelude.rs", proofs="proofs.rs", witness="witness.rs",
    rlimit=60, min_verified=9,
    twins=["c11_partition_indices_bounded"], twin_timeout=900,
    items=[
        dict(file=F, path=["enum StrengthReducedU64"]),
        dict(file=F, path=[IMPL, "fn new"], wrap=IMPL, ret="r",
             edits=[dict(rule="R5", find="debug_assert!(divisor > 0);", replace="")],
             contract="    requires divisor > 0,\n    ensures wf_reducer(r, divisor),",
             proofs=[dict(at="body_start", text="""
        proof {
            assert(!is_pow2_u64(divisor) ==> divisor >= 3) by(bit_vector)
                requires divisor > 0;
            assert(u128::MAX as int == pow2_128() - 1);
            if divisor >= 2 {
                vstd::arithmetic::div_mod::lemma_div_is_strictly_smaller(u128::MAX as int, divisor as int);
            }
        }""")]),
        dict(file=F, path=[IMPL, "fn quotient"], wrap=IMPL, ret="r",
             edits=[dict(rule="R2", find="reciprocal as u64;", replace="#[verifier::truncate] (reciprocal as u64);")],
             contract="    ensures r as int == (value as int * reciprocal as int) / pow2_128(),",
             proofs=[
                 dict(at="after_stmt:1", text="""
        proof {
            assert(reciprocal_low as u128 == reciprocal % 0x1_0000_0000_0000_0000u128) by(bit_vector)
                requires reciprocal_low == (reciprocal as u64);
            assert((reciprocal >> 64) == reciprocal / 0x1_0000_0000_0000_0000u128
                   && (reciprocal >> 64) <= 0xffff_ffff_ffff_ffffu128) by(bit_vector);
            assert(0 <= (value as int) * (reciprocal_low as int) < pow2_64() * pow2_64()
                && 0 <= (value as int) * (reciprocal_high as int) < pow2_64() * pow2_64()) by(nonlinear_arith)
                requires 0 <= (value as int) < pow2_64(), 0 <= (reciprocal_low as int) < pow2_64(), 0 <= (reciprocal_high as int) < pow2_64();
            assert(pow2_64() * pow2_64() == pow2_128());
        }"""),
                 dict(at="after_stmt:3", text="""
        proof {
            assert((high_product & 0xffff_ffff_ffff_ffffu128) == high_product % 0x1_0000_0000_0000_0000u128
                   && (high_product & 0xffff_ffff_ffff_ffffu128) <= 0xffff_ffff_ffff_ffffu128) by(bit_vector);
            assert((low_product >> 64) == low_product / 0x1_0000_0000_0000_0000u128
                   && (low_product >> 64) <= 0xffff_ffff_ffff_ffffu128) by(bit_vector);
            assert((high_product >> 64) == high_product / 0x1_0000_0000_0000_0000u128
                   && (high_product >> 64) <= 0xffff_ffff_ffff_ffffu128) by(bit_vector);
        }"""),
                 dict(at="after_stmt:4", text="""
        proof {
            let v = value as int;
            let rl = reciprocal_low as int;
            let rh = reciprocal_high as int;
            let b = pow2_64();
            assert(reciprocal as int == rh * b + rl);
            let hl = (high_product as int) % b;
            let hh = (high_product as int) / b;
            let lh = (low_product as int) / b;
            let ll = (low_product as int) % b;
            let s = hl + lh;
            let s128 = ((high_product & 0xffff_ffff_ffff_ffffu128) + (low_product >> 64)) as u128;
            assert(s128 as int == s);
            assert((s128 >> 64) == s128 / 0x1_0000_0000_0000_0000u128 && (s128 >> 64) <= 1)
                by(bit_vector) requires s128 <= 0x1_ffff_ffff_ffff_fffeu128;
            assert(carry as int == s / b);
            let c = s / b;
            let sr = s % b;
            assert(v * (rh * b + rl) == (hh * b + hl) * b + (lh * b + ll)) by(nonlinear_arith)
                requires v * rh == hh * b + hl, v * rl == lh * b + ll;
            assert(v * (reciprocal as int) == (hh + c) * (b * b) + (sr * b + ll)) by(nonlinear_arith)
                requires v * (rh * b + rl) == (hh * b + hl) * b + (lh * b + ll), s == hl + lh, s == c * b + sr,
                         reciprocal as int == rh * b + rl;
            assert(0 <= sr * b + ll < b * b) by(nonlinear_arith) requires 0 <= sr < b, 0 <= ll < b;
            assert(b * b == pow2_128());
            lemma_fundamental_div_mod_converse(v * (reciprocal as int), pow2_128(), hh + c, sr * b + ll);
            assert(v * (reciprocal as int) < b * (b * b)) by(nonlinear_arith)
                requires 0 <= v < b, 0 <= (reciprocal as int) < b * b;
            assert(hh + c < b) by(nonlinear_arith)
                requires (hh + c) * (b * b) <= v * (reciprocal as int), v * (reciprocal as int) < b * (b * b), b > 0, hh + c >= 0;
        }""")]),
        dict(file=F, path=[IMPL, "fn partition_indices"], wrap=IMPL, loop_count=2,
             edits=[R1],
             contract="""    requires
        old(indices)@.len() >= 1,
        wf_reducer(self, old(indices)@.len() as u64),
        hash_buffer@.len() <= u32::MAX,
    ensures
        final(indices)@.len() == old(indices)@.len(),
        forall|p: int| 0 <= p < old(indices)@.len() ==>
            (#[trigger] final(indices)@[p])@ == old(indices)@[p]@ + routed(hash_buffer@, old(indices)@.len() as int, p, hash_buffer@.len() as int),""",
             loops={0: INV + "        self == (StrengthReducedU64::PowerOfTwo { mask }),\n",
                    1: INV + "        self == (StrengthReducedU64::Reciprocal { divisor, reciprocal }),\n"},
             proofs=[
                 dict(at="loop_body_start:0", text="""
                    proof {
                        let d = indices@.len() as u64;
                        let h = hash_buffer@[index as int];
                        assert((h & mask) == h % d) by(bit_vector)
                            requires d > 0, (d & sub(d, 1)) == 0, mask == sub(d, 1);
                    }"""),
                 dict(at="loop_body_end:0", text="""
                    proof {
                        let d = indices@.len() as int;
                        let b = hash_buffer@[index as int] as int % d;
                        assert forall|p: int| 0 <= p < indices@.len() implies
                            (#[trigger] indices@[p])@ == old(indices)@[p]@ + routed(hash_buffer@, d, p, index as int + 1) by {
                            if p == b {
                                assert(indices@[p]@ =~= old(indices)@[p]@ + routed(hash_buffer@, d, p, index as int).push(index as u32));
                            }
                        }
                    }"""),
                 dict(at="after_stmt_in_loop:1:1", text="""
                    proof {
                        let d = divisor as int;
                        lemma_recip(hash_buffer@[index as int] as int, d, reciprocal as int);
                        lemma_fundamental_div_mod(hash_buffer@[index as int] as int, d);
                        assert(quotient as int == hash_buffer@[index as int] as int / d);
                        assert((quotient as int) * d <= hash_buffer@[index as int] as int) by(nonlinear_arith)
                            requires hash_buffer@[index as int] as int == d * (quotient as int) + (hash_buffer@[index as int] as int % d),
                                     0 <= hash_buffer@[index as int] as int % d;
                    }"""),
                 dict(at="after_stmt_in_loop:1:2", text="""
                    proof {
                        let d = divisor as int;
                        let b = hash_buffer@[index as int] as int % d;
                        assert(partition as int == b) by(nonlinear_arith)
                            requires partition as int == hash_buffer@[index as int] as int - (quotient as int) * d,
                                     hash_buffer@[index as int] as int == d * (quotient as int) + b;
                        assert(0 <= b < d);
                    }"""),
                 dict(at="loop_body_end:1", text="""
                    proof {
                        let d = indices@.len() as int;
                        let b = hash_buffer@[index as int] as int % d;
                        assert forall|p: int| 0 <= p < indices@.len() implies
                            (#[trigger] indices@[p])@ == old(indices)@[p]@ + routed(hash_buffer@, d, p, index as int + 1) by {
                            if p == b {
                                assert(indices@[p]@ =~= old(indices)@[p]@ + routed(hash_buffer@, d, p, index as int).push(index as u32));
                            }
                        }
                    }"""),
             ]),
    ],
    mutants=[
        dict(name="mask_off_by_one", item="new", find="mask: divisor - 1", replace="mask: divisor"),
        dict(name="recip_no_plus_one", item="new", find="/ u128::from(divisor) + 1", replace="/ u128::from(divisor)"),
        dict(name="carry_dropped", item="quotient", find="(high_product >> 64) + carry", replace="(high_product >> 64)"),
        dict(name="carry_wrong_shift", item="quotient", find="(low_product >> 64)) >> 64", replace="(low_product >> 63)) >> 64"),
        dict(name="pow2_or", item="partition_indices", find="*hash & mask", replace="*hash | mask"),
        dict(name="remainder_plus", item="partition_indices", find="*hash - quotient * divisor", replace="*hash - quotient * (divisor - 1)"),
        dict(name="row_index_shift", item="partition_indices", find="indices[partition as usize].push(index as u32)", replace="indices[partition as usize].push((index + 1) as u32)"),
    ],
)]

KANI = [dict(package="datafusion-physical-plan", module="physical_plan/repartition.rs", timeout=900, harnesses=[
    dict(name="c11_partition_indices_bounded", complete=False, thorough_only=True, bound="concrete divisors 1,3,4,5,6,7; one hash within 2^16 of either end of the u64 range",
         what="Kani twin of the Verus unit on the unextracted new + partition_indices: each row exactly once, in bucket hash mod n (cross-check of rewrites R1/R2)"),
])]
TRUSTED = ["Verus 0.2026.09.13 + Z3 4.12.5 (bundled)", "assume_specification u64::is_power_of_two <=> d>0 && d&(d-1)==0",
           "Verus encoding of u128 arithmetic and of #[verifier::truncate] casts", "extraction scanner + rewrites R1,R2,R5 (logged, diffed)"]
ASSUMPTIONS = ["precondition hash_buffer.len() <= u32::MAX (Arrow batches have < 2^32 rows; the `index as u32` cast relies on it)",
               "precondition indices.len() == num_partitions >= 1 and reducer built by new(num_partitions) (established by new_hash_partitioner, which rejects 0)"]
NOT_COVERED = ["hash values themselves (create_hashes, C12)", "usize -> u64 conversion of num_partitions (identity on 64-bit targets)"]
EXPLANATION = "Unbounded SMT proof that the strength-reduced reducer routes row j to bucket hash[j] mod n for all 2^64 hashes and all divisors in [1,2^64)."
