// trusted: 64-bit target (usize == u64), as on every platform DataFusion is released for
global size_of usize == 8;
// trusted: specification of a std function that vstd does not specify
pub open spec fn is_pow2_u64(d: u64) -> bool {
    d > 0 && (d & sub(d, 1)) == 0
}
pub assume_specification[ u64::is_power_of_two ](x: u64) -> (r: bool)
    ensures r == is_pow2_u64(x);
