fn witness_new_and_route() {
    let r = StrengthReducedU64::new(3);
    let mut idx: Vec<Vec<u32>> = Vec::new();
    idx.push(Vec::new()); idx.push(Vec::new()); idx.push(Vec::new());
    let mut h: Vec<u64> = Vec::new();
    h.push(7);
    r.partition_indices(h.as_slice(), idx.as_mut_slice());
    //@MUSTFAIL
}
fn witness_pow2() {
    let r = StrengthReducedU64::new(4);
    //@MUSTFAIL
}
fn witness_quotient() {
    let q = StrengthReducedU64::quotient(10, 3);
    //@MUSTFAIL
}
