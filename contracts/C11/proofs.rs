spec fn pow2_128() -> int { 0x1_0000_0000_0000_0000_0000_0000_0000_0000int }
spec fn pow2_64() -> int { 0x1_0000_0000_0000_0000int }

// Granlund–Montgomery: m = ceil(2^128/d) (as computed without representing 2^128),
// 0 < d < 2^64, 0 <= n < 2^64  ==>  floor(n*m / 2^128) == n / d
proof fn lemma_recip(n: int, d: int, m: int)
    requires 0 < d < pow2_64(), 0 <= n < pow2_64(),
             m == (pow2_128() - 1) / d + 1,
    ensures (n * m) / pow2_128() == n / d,
{
    let p = pow2_128();
    let k = (p - 1) / d;
    lemma_fundamental_div_mod(p - 1, d);
    let r0 = (p - 1) % d;
    assert(p - 1 == d * k + r0);
    let e = m * d - p;
    assert(m * d == k * d + d) by(nonlinear_arith) requires m == k + 1;
    assert(e == d - 1 - r0) by(nonlinear_arith) requires e == m*d - p, m*d == k*d + d, p - 1 == d*k + r0;
    assert(0 <= e < d);
    let q = n / d;
    let r = n % d;
    lemma_fundamental_div_mod(n, d);
    assert(n == d * q + r);
    assert(q >= 0) by { lemma_div_pos_is_pos(n, d); }
    assert(k >= 0) by { lemma_div_pos_is_pos(p - 1, d); }
    assert(q * p <= n * m && n * m < (q + 1) * p) by(nonlinear_arith)
        requires n == d*q + r, 0 <= r < d, m*d == p + e, 0 <= e < d, 0 < d < pow2_64(), 0 <= n < pow2_64(), p == pow2_128(), q >= 0, m >= 0;
    lemma_div_multiples_vanish_fancy(q, n*m - q*p, p);
    assert(p * q + (n*m - q*p) == n * m) by(nonlinear_arith);
}

/// what `new` establishes and `partition_indices` relies on
spec fn wf_reducer(r: StrengthReducedU64, d: u64) -> bool {
    match r {
        StrengthReducedU64::PowerOfTwo { mask } => is_pow2_u64(d) && mask == d - 1,
        StrengthReducedU64::Reciprocal { divisor, reciprocal } =>
            divisor == d && d >= 3 && !is_pow2_u64(d)
            && reciprocal as int == (pow2_128() - 1) / (d as int) + 1,
    }
}

/// abstract view of the routing result: rows 0..i of `hash` that belong to partition p,
/// in increasing row order
spec fn routed(hash: Seq<u64>, d: int, p: int, i: int) -> Seq<u32>
    decreases i
{
    if i <= 0 { Seq::empty() }
    else {
        let prev = routed(hash, d, p, i - 1);
        if hash[i - 1] as int % d == p { prev.push((i - 1) as u32) } else { prev }
    }
}

// ---- the property as corollaries of the view -----------------------------------
/// every row j < n occurs in the bucket hash[j] % d ...
proof fn lemma_routed_contains(hash: Seq<u64>, d: int, n: int, j: int)
    requires 0 <= j < n <= hash.len(), d > 0, n <= u32::MAX,
    ensures routed(hash, d, hash[j] as int % d, n).contains(j as u32),
    decreases n
{
    let p = hash[j] as int % d;
    if j == n - 1 {
        let prev = routed(hash, d, p, n - 1);
        assert(prev.push(j as u32)[prev.len() as int] == j as u32);
    } else {
        lemma_routed_contains(hash, d, n - 1, j);
        let prev = routed(hash, d, p, n - 1);
        let w = choose|w: int| 0 <= w < prev.len() && prev[w] == j as u32;
        if hash[n - 1] as int % d == p {
            assert(prev.push((n - 1) as u32)[w] == j as u32);
        }
    }
}
/// ... every element of bucket p is a row < n whose hash is p modulo d, and the bucket is strictly increasing
/// (so no row occurs twice and no row occurs in a wrong bucket)
proof fn lemma_routed_sound(hash: Seq<u64>, d: int, p: int, n: int)
    requires 0 <= n <= hash.len(), d > 0, n <= u32::MAX,
    ensures
        forall|w: int| 0 <= w < routed(hash, d, p, n).len() ==>
            0 <= (#[trigger] routed(hash, d, p, n)[w]) < n && hash[routed(hash, d, p, n)[w] as int] as int % d == p,
        forall|v: int, w: int| 0 <= v < w < routed(hash, d, p, n).len() ==> routed(hash, d, p, n)[v] < routed(hash, d, p, n)[w],
    decreases n
{
    if n > 0 {
        lemma_routed_sound(hash, d, p, n - 1);
        let prev = routed(hash, d, p, n - 1);
        let cur = routed(hash, d, p, n);
        if hash[n - 1] as int % d == p {
            assert(cur == prev.push((n - 1) as u32));
            assert forall|w: int| 0 <= w < cur.len() implies
                0 <= (#[trigger] cur[w]) < n && hash[cur[w] as int] as int % d == p by {
                if w < prev.len() { assert(cur[w] == prev[w]); } else { assert(cur[w] == (n - 1) as u32); }
            }
            assert forall|v: int, w: int| 0 <= v < w < cur.len() implies cur[v] < cur[w] by {
                assert(cur[v] == prev[v]);
                if w < prev.len() { assert(cur[w] == prev[w]); } else { assert(prev[v] < n - 1); }
            }
        } else {
            assert(cur == prev);
        }
    }
}
