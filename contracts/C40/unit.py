"""C40 — caches: accounted size == sum of entries, within the byte limit, LRU eviction, TTL honoured."""
LEVEL = "proof"
F = "datafusion/execution/src/cache/default_cache.rs"
IMPL = "impl<K: CacheKey, V: CacheValue> DefaultCacheState<K, V>"
RR = "#[verifier::reject_recursive_types(K)]\n#[verifier::reject_recursive_types(V)]\n"
KEEP = "final(self).memory_limit == old(self).memory_limit, final(self).ttl == old(self).ttl,"

EXPIRED = "spec fn expired<V: CacheValue>(e: ValueEntry<V>, now: Instant) -> bool { e.expires is Some && now > e.expires->Some_0 }"

VERUS = [dict(
    name="default_cache_state",
    uses="use vstd::prelude::*;\n",
    prelude="prelude.rs", proofs="proofs.rs", witness="witness.rs", rlimit=80, min_verified=14,
    twins=[],
    # R8 (generic): every statement whose only effect is on the hit counters is dropped
    global_edits=[dict(rule="R8", regex=r"\*?self\.hits\.[^;{}]*;", replace="", count="any")],
    global_edits_post=[dict(rule="R19", option_adapters=True)],
    items=[
        dict(file=F, path=["struct ValueEntry"]),
        dict(file=F, path=["struct DefaultCacheState"], prefix=RR,
             edits=[dict(rule="R8", find="    hits: HashMap<K, usize>,\n", replace="")]),
        dict(file=F, path=[IMPL, "fn remove"], wrap=IMPL, ret="r",
             edits=[],
             contract="""    requires wf(*old(self)),
    ensures wf(*final(self)), """ + KEEP + """
        final(self).memory_used <= old(self).memory_used,
        ({ let v0 = old(self).lru_queue.view(); let i = index_of(v0, *key);
           &&& (i < 0 ==> r is None && final(self).lru_queue.view() == v0 && final(self).memory_used == old(self).memory_used)
           &&& (i >= 0 ==> r == Some(v0[i].1.value) && final(self).lru_queue.view() == v0.remove(i)
                           && final(self).memory_used == old(self).memory_used - entry_size(v0[i])) }),""",
             proofs=[dict(at="body_start", text="""
        proof {
            let v0 = self.lru_queue.view();
            lemma_index_of(v0, *key);
            let i = index_of(v0, *key);
            if i >= 0 { lemma_total_remove(v0, i); lemma_total_nonneg(v0.remove(i)); }
        }""")]),
        dict(file=F, path=[IMPL, "fn evict_entries"], wrap=IMPL, loop_count=1,
             edits=[dict(rule="R5", regex=r"log::error!\((?:[^()]|\([^()]*\))*\);", replace="", count="any"),
                    dict(rule="R5", regex=r'debug_assert!\(false, "[^"]*"\);', replace="assert(false); // proved unreachable under wf", count="any"),],
             contract="""    requires wf(*old(self)),
    ensures wf(*final(self)), within_budget(*final(self)), """ + KEEP + """
        evicted_to(old(self).lru_queue.view(), old(self).memory_limit as int, final(self).lru_queue.view()),""",
             loops={0: """
            invariant
                wf(*self), self.memory_limit == old(self).memory_limit, self.ttl == old(self).ttl,
                0 <= k <= old(self).lru_queue.view().len(),
                self.lru_queue.view() == old(self).lru_queue.view().subrange(k, old(self).lru_queue.view().len() as int),
                k == 0 || total(old(self).lru_queue.view().subrange(k - 1, old(self).lru_queue.view().len() as int)) > self.memory_limit,
            decreases self.lru_queue.view().len()
"""},
             proofs=[
                 dict(at="body_start", text="""
        let ghost mut k: int = 0;
        proof { assert(self.lru_queue.view().subrange(0, self.lru_queue.view().len() as int) =~= self.lru_queue.view()); }"""),
                 dict(at="loop_body_start:0", text="""
            proof {
                let v = self.lru_queue.view();
                if v.len() > 0 { lemma_total_pop_front(v); lemma_total_nonneg(v.subrange(1, v.len() as int)); }
            }
            let ghost v_before = self.lru_queue.view();"""),
                 dict(at="loop_body_end:0", text="""
            proof {
                let ov = old(self).lru_queue.view();
                assert(v_before.subrange(1, v_before.len() as int) =~= ov.subrange(k + 1, ov.len() as int));
                assert(ov.subrange((k + 1) - 1, ov.len() as int) == v_before);
                k = k + 1;
            }"""),
             ]),
        dict(file=F, path=[IMPL, "fn clear"], wrap=IMPL,
             edits=[],
             contract="""    ensures wf(*final(self)), """ + KEEP + """
        final(self).lru_queue.view().len() == 0, final(self).memory_used == 0,"""),
        dict(file=F, path=[IMPL, "fn get"], wrap=IMPL, ret="r",
             edits=[dict(rule="R4", letchains=True),],
             contract="""    requires wf(*old(self)),
    ensures wf(*final(self)), """ + KEEP + """
        final(self).memory_used <= old(self).memory_used,
        ({ let v0 = old(self).lru_queue.view(); let i = index_of(v0, *key);
           &&& (i < 0 ==> r is None && final(self).lru_queue.view() == v0)
           // an entry is used only within its time-to-live: expired => dropped, nothing returned
           &&& (i >= 0 && expired(v0[i].1, now) ==> r is None && final(self).lru_queue.view() == v0.remove(i))
           // hit: value returned, entry becomes most recently used, nothing else changes
           &&& (i >= 0 && !expired(v0[i].1, now) ==> r == Some(v0[i].1.value)
                    && final(self).lru_queue.view() == v0.remove(i).push(v0[i])
                    && final(self).memory_used == old(self).memory_used) }),""",
             proofs=[dict(at="body_start", text="""
        proof {
            let v0 = self.lru_queue.view();
            lemma_index_of(v0, *key);
            let i = index_of(v0, *key);
            if i >= 0 {
                let v1 = v0.remove(i).push(v0[i]);
                lemma_total_remove(v0, i);
                lemma_total_push(v0.remove(i), v0[i]);
                lemma_index_of(v1, *key);
                assert(v1.last().0 == *key);
                assert(index_of(v1, *key) == v1.len() - 1);
                assert(v1.remove(v1.len() - 1) =~= v0.remove(i));
            }
        }""")]),
        dict(file=F, path=[IMPL, "fn contains_key"], wrap=IMPL, ret="r",
             # R15: match guard -> nested if (the installed Verus loses the frame of `self` across a guarded arm
             # that calls a &mut self method); the fall-through arm is duplicated as the else branch
             edits=[dict(rule="R15", find="""            Some(exp) if now > exp => {
                self.remove(key);
                false
            }
            _ => true,""", replace="""            Some(exp) => { if now > exp {
                self.remove(key);
                false
            } else { true } }
            _ => true,""")],
             contract="""    requires wf(*old(self)),
    ensures wf(*final(self)), """ + KEEP + """
        final(self).memory_used <= old(self).memory_used,
        ({ let v0 = old(self).lru_queue.view(); let i = index_of(v0, *key);
           &&& (i < 0 ==> !r && final(self).lru_queue.view() == v0)
           &&& (i >= 0 && expired(v0[i].1, now) ==> !r && final(self).lru_queue.view() == v0.remove(i))
           &&& (i >= 0 && !expired(v0[i].1, now) ==> r && final(self).lru_queue.view() == v0) }),""",
             proofs=[dict(at="body_start", text="""
        proof { lemma_index_of(self.lru_queue.view(), *key); }""")]),
        dict(file=F, path=[IMPL, "fn put"], wrap=IMPL, ret="r",
             edits=[dict(rule="R13", find="self.ttl.map(|ttl| now + ttl)", replace="expiry_of(self.ttl, now)"),
                    dict(rule="R6", find="old.map(|v| v.value)", replace="match old { Some(v) => Some(v.value), None => None }")],
             contract="""    requires wf(*old(self)), within_budget(*old(self)),
             old(self).memory_limit <= usize::MAX / 2,
             key.size_spec() + value.size_spec() <= usize::MAX,
    ensures wf(*final(self)), within_budget(*final(self)), """ + KEEP + """
        ({ let v0 = old(self).lru_queue.view(); let i = index_of(v0, *key);
           let total_size = key.size_spec() + value.size_spec();
           let base = if i >= 0 { v0.remove(i) } else { v0 };
           let entry = (*key, ValueEntry { value: value, expires: spec_expiry(old(self).ttl, now) });
           // zero-sized values are not cached
           &&& (value.size_spec() == 0 ==> r is None && final(self).lru_queue.view() == v0 && final(self).memory_used == old(self).memory_used)
           // a value that can never fit only removes the stale entry
           &&& (value.size_spec() > 0 && total_size > old(self).memory_limit ==>
                    final(self).lru_queue.view() == base && r == (if i >= 0 { Some(v0[i].1.value) } else { None }))
           // admissible value: stored as most recent; least-recently-used entries evicted, as few as needed
           &&& (value.size_spec() > 0 && total_size <= old(self).memory_limit ==>
                    r == (if i >= 0 { Some(v0[i].1.value) } else { None })
                    && evicted_to(base.push(entry), old(self).memory_limit as int, final(self).lru_queue.view())
                    && final(self).lru_queue.view().len() >= 1
                    && final(self).lru_queue.view().last() == entry) }),""",
             proofs=[
                 dict(at="body_start", text="""
        proof {
            let v0 = self.lru_queue.view();
            lemma_index_of(v0, *key);
            lemma_total_nonneg(v0);
            let i = index_of(v0, *key);
            if i >= 0 { lemma_total_remove(v0, i); lemma_total_nonneg(v0.remove(i)); }
        }
        let ghost v0 = self.lru_queue.view();
        let ghost i0 = index_of(v0, *key);"""),
                 dict(at="after:let entry = ValueEntry { value, expires };", text="""
        let ghost entry_ghost = entry;"""),
                 dict(at="before:self.evict_entries();", text="""
        proof {
            let base = if i0 >= 0 { v0.remove(i0) } else { v0 };
            let e = (*key, entry_ghost);
            lemma_total_push(base, e);
            assert(self.lru_queue.view() == base.push(e));
        }
        let ghost pushed = self.lru_queue.view();"""),
                 dict(at="after:self.evict_entries();", text="""
        proof {
            // the new entry alone fits, so eviction stops before reaching it
            let fin = self.lru_queue.view();
            let k = choose|k: int| 0 <= k <= pushed.len() && fin == #[trigger] pushed.subrange(k, pushed.len() as int) && total(fin) <= self.memory_limit
                && (k == 0 || total(pushed.subrange(k - 1, pushed.len() as int)) > self.memory_limit);
            if k == pushed.len() {
                let lastonly = pushed.subrange(pushed.len() - 1, pushed.len() as int);
                assert(lastonly =~= Seq::<(K, ValueEntry<V>)>::empty().push(pushed.last()));
                lemma_total_push(Seq::<(K, ValueEntry<V>)>::empty(), pushed.last());
                assert(total(Seq::<(K, ValueEntry<V>)>::empty()) == 0);
                assert(false);
            }
            assert(fin.last() == pushed.last());
        }"""),
             ]),
        dict(file=F, path=["impl<K: CacheKey, V: CacheValue> Cache<K, V> for DefaultCache<K, V>", "fn update_cache_limit"],
             wrap="impl<K: CacheKey, V: CacheValue> DefaultCache<K, V>",
             edits=[dict(rule="R10", find="(&self, limit: usize)", replace="(&self, state: &mut DefaultCacheState<K, V>, limit: usize)"),
                    dict(rule="R10", find="let mut state = self.state.lock().unwrap();", replace="")],
             contract="""    requires wf(*old(state)),
    ensures wf(*final(state)), within_budget(*final(state)), final(state).memory_limit == limit, final(state).ttl == old(state).ttl,
        evicted_to(old(state).lru_queue.view(), limit as int, final(state).lru_queue.view()),"""),
    ],
    mutants=[
        dict(name="remove_forgets_key_size", item="remove", find="self.memory_used -= key.size();", replace=""),
        dict(name="put_forgets_old_value", item="put", find="self.memory_used -= old_entry.value.size();", replace=""),
        dict(name="put_no_eviction", item="put", find="self.evict_entries();", replace=""),
        dict(name="evict_strict_to_nonstrict", item="evict_entries", find="while self.memory_used > self.memory_limit", replace="while self.memory_used >= self.memory_limit"),
        dict(name="evict_forgets_value", item="evict_entries", find="self.memory_used -= evicted.value.size();", replace=""),
        dict(name="get_ignores_ttl", item="get", find="if now > exp {", replace="if false {"),
        dict(name="contains_ignores_ttl", item="contains_key", find="if now > exp {", replace="if now > exp && false {"),
        dict(name="clear_keeps_usage", item="clear", find="self.memory_used = 0;", replace=""),
        dict(name="limit_update_no_evict", item="update_cache_limit", find="state.evict_entries();", replace=""),
    ],
)]
KANI = [dict(package="datafusion-execution", module="execution/cache_manager.rs", timeout=900, harnesses=[
    dict(name="c40_file_metadata_entry_valid_iff_size_and_mtime_unchanged", complete=False, bound="sizes full u64; timestamps from a 4 s x 2 ns window (chrono calendar arithmetic)",
         what="CachedFileMetadataEntry::is_valid_for on forged entries: valid <=> size and last_modified both unchanged"),
])]
TRUSTED = ["Verus 0.2026.09.13 + bundled Z3", "ASSUMED contract of LruQueue::{get,peek,put,pop,remove,clear} over a recency-ordered sequence view (prelude.rs); NOT checked against lru_queue.rs (CBMC does not finish even a concrete history on the real LruQueue, DESIGN 9.8)",
           "CacheKey/CacheValue::size are pure functions of the value; clone returns an equal value; Eq on keys is spec equality", "Instant/Duration modelled as integers (total order)",
           "rewrites R4 (let-chain), R5 (log/debug_assert -> proved assert(false)), R6, R8 (hit counters dropped), R10 (lock elision for update_cache_limit), R13 (ttl closure -> assumed expiry_of)"]
ASSUMPTIONS = ["memory_limit <= usize::MAX/2 and key size + value size <= usize::MAX (put adds the new size before subtracting the old one)", "hit counters are not verified", "sequential semantics inside the cache mutex"]
NOT_COVERED = ["file size / mtime validity of cached metadata (is_valid_for) and table-drop invalidation as observed by queries", "drop_table_entries / list_entries (iterator adapters)", "the LruQueue implementation itself (Arc<Mutex>/Weak linked list over a std HashMap): outside both verifiers"]
EXPLANATION = ""
