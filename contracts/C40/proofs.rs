spec fn entry_size<K: CacheKey, V: CacheValue>(e: (K, ValueEntry<V>)) -> int {
    e.0.size_spec() as int + e.1.value.size_spec() as int
}
/// accounted size of a view = sum over its entries of key size + value size
spec fn total<K: CacheKey, V: CacheValue>(s: Seq<(K, ValueEntry<V>)>) -> int
    decreases s.len()
{
    if s.len() == 0 { 0 } else { total(s.drop_last()) + entry_size(s.last()) }
}
proof fn lemma_total_nonneg<K: CacheKey, V: CacheValue>(s: Seq<(K, ValueEntry<V>)>)
    ensures total(s) >= 0,
    decreases s.len()
{
    if s.len() > 0 { lemma_total_nonneg(s.drop_last()); }
}
proof fn lemma_total_push<K: CacheKey, V: CacheValue>(s: Seq<(K, ValueEntry<V>)>, e: (K, ValueEntry<V>))
    ensures total(s.push(e)) == total(s) + entry_size(e),
{
    assert(s.push(e).drop_last() =~= s);
}
proof fn lemma_total_remove<K: CacheKey, V: CacheValue>(s: Seq<(K, ValueEntry<V>)>, i: int)
    requires 0 <= i < s.len(),
    ensures total(s.remove(i)) == total(s) - entry_size(s[i]),
    decreases s.len()
{
    if i == s.len() - 1 {
        assert(s.remove(i) =~= s.drop_last());
    } else {
        lemma_total_remove(s.drop_last(), i);
        assert(s.remove(i).drop_last() =~= s.drop_last().remove(i));
        assert(s.remove(i).last() == s.last());
    }
}
proof fn lemma_total_pop_front<K: CacheKey, V: CacheValue>(s: Seq<(K, ValueEntry<V>)>)
    requires s.len() > 0,
    ensures total(s.subrange(1, s.len() as int)) == total(s) - entry_size(s[0]),
{
    assert(s.subrange(1, s.len() as int) =~= s.remove(0));
    lemma_total_remove(s, 0);
}
proof fn lemma_index_of<K, V>(s: Seq<(K, V)>, k: K)
    ensures
        -1 <= index_of(s, k) < s.len(),
        index_of(s, k) >= 0 ==> s[index_of(s, k)].0 == k,
        index_of(s, k) < 0 ==> forall|j: int| 0 <= j < s.len() ==> s[j].0 != k,
    decreases s.len()
{
    if s.len() > 0 && s.last().0 != k {
        lemma_index_of(s.drop_last(), k);
        assert forall|j: int| 0 <= j < s.len() && index_of(s, k) < 0 implies s[j].0 != k by {
            if j < s.len() - 1 { assert(s.drop_last()[j] == s[j]); }
        }
    }
}

/// representation invariant of the cache state
spec fn wf<K: CacheKey, V: CacheValue>(c: DefaultCacheState<K, V>) -> bool {
    &&& distinct_keys(c.lru_queue.view())
    &&& c.memory_used as int == total(c.lru_queue.view())
}
/// the budget clause of the property
spec fn within_budget<K: CacheKey, V: CacheValue>(c: DefaultCacheState<K, V>) -> bool {
    c.memory_used <= c.memory_limit
}
/// LRU eviction: the result of evicting from `s` under `limit` is the longest suffix of `s`
/// (most recent entries) whose accounted size fits: exactly the shortest prefix of
/// least-recently-used entries is gone
spec fn evicted_to<K: CacheKey, V: CacheValue>(s: Seq<(K, ValueEntry<V>)>, limit: int, r: Seq<(K, ValueEntry<V>)>) -> bool {
    exists|k: int| 0 <= k <= s.len() && r == #[trigger] s.subrange(k, s.len() as int) && total(r) <= limit
        && (k == 0 || total(s.subrange(k - 1, s.len() as int)) > limit)
}
spec fn expired<V: CacheValue>(e: ValueEntry<V>, now: Instant) -> bool { e.expires is Some && now > e.expires->Some_0 }
