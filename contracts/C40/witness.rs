fn witness_put<K: CacheKey, V: CacheValue>(c: &mut DefaultCacheState<K, V>, k: &K, v: V, now: Instant)
    requires wf(*old(c)), within_budget(*old(c)), old(c).memory_limit <= 1000, k.size_spec() <= 10, v.size_spec() <= 10,
{
    let r = c.put(k, v, now);
    //@MUSTFAIL
}
fn witness_get_remove<K: CacheKey, V: CacheValue>(c: &mut DefaultCacheState<K, V>, k: &K, now: Instant)
    requires wf(*old(c)),
{
    let r = c.get(k, now);
    let b = c.contains_key(k, now);
    let q = c.remove(k);
    c.evict_entries();
    c.clear();
    //@MUSTFAIL
}
