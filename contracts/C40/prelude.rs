// trusted: 64-bit target
global size_of usize == 8;
/// `Instant` / `Duration` are totally ordered values; modelled as integers (assumption)
pub type Instant = u64;
pub type Duration = u64;
/// R13: stands for `self.ttl.map(|ttl| now + ttl)`
pub uninterp spec fn spec_expiry(ttl: Option<Duration>, now: Instant) -> Option<Instant>;
#[verifier::external_body]
pub fn expiry_of(ttl: Option<Duration>, now: Instant) -> (r: Option<Instant>)
    ensures r == spec_expiry(ttl, now), ttl is None <==> r is None,
{ unimplemented!() }

pub trait CacheKey: Sized {
    spec fn size_spec(&self) -> usize;
    fn size(&self) -> (r: usize) ensures r == self.size_spec();
    fn clone(&self) -> (r: Self) ensures r == *self;
}
pub trait CacheValue: Sized {
    spec fn size_spec(&self) -> usize;
    fn size(&self) -> (r: usize) ensures r == self.size_spec();
    fn clone(&self) -> (r: Self) ensures r == *self;
}

/// ASSUMED contract of the LRU queue (datafusion/execution/src/cache/lru_queue.rs: HashMap +
/// doubly linked list of Arc<Mutex<Node>>/Weak links, outside Verus).  View: entries in recency
/// order, index 0 = least recently used (next to be popped), last = most recently used.  The
/// contract is checked against the real implementation by a bounded Kani harness.
#[verifier::external_body]
#[verifier::reject_recursive_types(K)]
#[verifier::reject_recursive_types(V)]
pub struct LruQueue<K, V> { _k: core::marker::PhantomData<(K, V)> }

pub open spec fn index_of<K, V>(s: Seq<(K, V)>, k: K) -> int
    decreases s.len()
{
    if s.len() == 0 { -1 } else if s.last().0 == k { s.len() - 1 } else { index_of(s.drop_last(), k) }
}
pub open spec fn distinct_keys<K, V>(s: Seq<(K, V)>) -> bool {
    forall|i: int, j: int| 0 <= i < j < s.len() ==> s[i].0 != s[j].0
}

impl<K, V> LruQueue<K, V> {
    pub uninterp spec fn view(&self) -> Seq<(K, V)>;

    #[verifier::external_body]
    pub fn get(&mut self, key: &K) -> (r: Option<&V>)
        requires distinct_keys(old(self).view()),
        ensures
            distinct_keys(final(self).view()),
            index_of(old(self).view(), *key) < 0 ==> r is None && final(self).view() == old(self).view(),
            index_of(old(self).view(), *key) >= 0 ==> ({
                let i = index_of(old(self).view(), *key);
                r == Some(&old(self).view()[i].1)
                && final(self).view() == old(self).view().remove(i).push(old(self).view()[i])
            }),
    { unimplemented!() }

    #[verifier::external_body]
    pub fn peek(&self, key: &K) -> (r: Option<&V>)
        requires distinct_keys(self.view()),
        ensures
            index_of(self.view(), *key) < 0 ==> r is None,
            index_of(self.view(), *key) >= 0 ==> r == Some(&self.view()[index_of(self.view(), *key)].1),
    { unimplemented!() }

    #[verifier::external_body]
    pub fn put(&mut self, key: K, value: V) -> (r: Option<V>)
        requires distinct_keys(old(self).view()),
        ensures
            distinct_keys(final(self).view()),
            index_of(old(self).view(), key) < 0 ==> r is None && final(self).view() == old(self).view().push((key, value)),
            index_of(old(self).view(), key) >= 0 ==> ({
                let i = index_of(old(self).view(), key);
                r == Some(old(self).view()[i].1)
                && final(self).view() == old(self).view().remove(i).push((key, value))
            }),
    { unimplemented!() }

    #[verifier::external_body]
    pub fn pop(&mut self) -> (r: Option<(K, V)>)
        requires distinct_keys(old(self).view()),
        ensures
            distinct_keys(final(self).view()),
            old(self).view().len() == 0 ==> r is None && final(self).view() == old(self).view(),
            old(self).view().len() > 0 ==> r == Some(old(self).view()[0])
                && final(self).view() == old(self).view().subrange(1, old(self).view().len() as int),
    { unimplemented!() }

    #[verifier::external_body]
    pub fn remove(&mut self, key: &K) -> (r: Option<V>)
        requires distinct_keys(old(self).view()),
        ensures
            distinct_keys(final(self).view()),
            index_of(old(self).view(), *key) < 0 ==> r is None && final(self).view() == old(self).view(),
            index_of(old(self).view(), *key) >= 0 ==> ({
                let i = index_of(old(self).view(), *key);
                r == Some(old(self).view()[i].1) && final(self).view() == old(self).view().remove(i)
            }),
    { unimplemented!() }

    #[verifier::external_body]
    pub fn clear(&mut self)
        ensures final(self).view() == Seq::<(K, V)>::empty(),
    { unimplemented!() }

    #[verifier::external_body]
    pub fn len(&self) -> (r: usize) ensures r == self.view().len() { unimplemented!() }

    #[verifier::external_body]
    pub fn is_empty(&self) -> (r: bool) ensures r == (self.view().len() == 0) { unimplemented!() }
}

/// owner of the mutex-protected state; after lock elision (R10) its critical sections take the state explicitly
#[verifier::external_body]
#[verifier::reject_recursive_types(K)]
#[verifier::reject_recursive_types(V)]
pub struct DefaultCache<K, V> { _p: core::marker::PhantomData<(K, V)> }
