/// the closure decides the predicate p on rows: whenever it answers Ok(b) for row i, b == p(i)
spec fn decides<F: Fn(&[ScalarValue], &[ScalarValue]) -> Result<bool>>(f: F, cols: Seq<ArrayRef>, target: &[ScalarValue], p: spec_fn(int) -> bool) -> bool {
    &&& forall|a: &[ScalarValue]| #[trigger] f.requires((a, target))
    &&& forall|a: &[ScalarValue], r: Result<bool>, i: int| a@ == #[trigger] row_at(cols, i) && #[trigger] f.ensures((a, target), r) && r is Ok ==> r->Ok_0 == p(i)
}
/// p holds on a prefix of [lo, hi) and fails on the rest (what sortedness of the ORDER BY column gives)
spec fn prefix_closed(p: spec_fn(int) -> bool, lo: int, hi: int) -> bool {
    forall|i: int, j: int| #![trigger p(i), p(j)] lo <= i <= j < hi && p(j) ==> p(i)
}
