// trusted: 64-bit target
global size_of usize == 8;
#[verifier::external_body]
pub struct DataFusionError { _p: u8 }
pub type Result<T> = std::result::Result<T, DataFusionError>;
/// Arrow array handle: only the u64 values of the produced column are observed
#[verifier::external_body]
pub struct ArrayRef { _p: u8 }
impl ArrayRef { pub uninterp spec fn u64_values(&self) -> Seq<u64>; }
/// R13: stands for `Ok(Arc::new(UInt64Array::from(vec)))`
#[verifier::external_body]
pub fn finish_u64_column(vec: Vec<u64>) -> (r: Result<ArrayRef>)
    ensures r is Ok, r->Ok_0.u64_values() == vec@,
{ unimplemented!() }
