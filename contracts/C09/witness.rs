fn witness_rows() {
    let f = std::sync::Arc::new(WindowFrame {
        start_bound: WindowFrameBound::Preceding(ScalarValue::UInt64(Some(1))),
        end_bound: WindowFrameBound::Following(ScalarValue::UInt64(Some(2))) });
    let r = calculate_range_rows(&f, 10, 3);
    //@MUSTFAIL
}
