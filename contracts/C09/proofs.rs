// R11: std::cmp::min on usize (body verified, not assumed)
fn min_usize(a: usize, b: usize) -> (r: usize)
    ensures r == (if a <= b { a } else { b })
{ if a <= b { a } else { b } }

/// frame definition over mathematical integers: rows j with
///   0 <= j < length  and  idx - p <= j <= idx + f
/// start = first such j (clamped), end = one past the last (clamped)
spec fn spec_start(b: WindowFrameBound, length: int, idx: int) -> Option<int> {
    match b {
        WindowFrameBound::Preceding(ScalarValue::UInt64(None)) => Some(0),
        WindowFrameBound::Preceding(ScalarValue::UInt64(Some(n))) => Some(if idx - n >= 0 { idx - n } else { 0 }),
        WindowFrameBound::CurrentRow => Some(idx),
        WindowFrameBound::Following(ScalarValue::UInt64(Some(n))) => Some(if idx + n <= length { idx + n } else { length }),
        _ => None,
    }
}
spec fn spec_end(b: WindowFrameBound, length: int, idx: int) -> Option<int> {
    match b {
        WindowFrameBound::Preceding(ScalarValue::UInt64(Some(n))) => Some(if idx >= n { idx - n + 1 } else { 0 }),
        WindowFrameBound::CurrentRow => Some(idx + 1),
        WindowFrameBound::Following(ScalarValue::UInt64(None)) => Some(length),
        WindowFrameBound::Following(ScalarValue::UInt64(Some(n))) => Some(if idx + n + 1 <= length { idx + n + 1 } else { length }),
        _ => None,
    }
}
/// lower / upper row offsets (relative to idx) a legal bound denotes; None = unbounded
spec fn lo_of(b: WindowFrameBound) -> Option<int> {
    match b {
        WindowFrameBound::Preceding(ScalarValue::UInt64(Some(n))) => Some(-(n as int)),
        WindowFrameBound::CurrentRow => Some(0),
        WindowFrameBound::Following(ScalarValue::UInt64(Some(n))) => Some(n as int),
        _ => None,
    }
}
/// the property in set form: for a legal frame, [start,end) contains exactly the rows j of the
/// partition with idx+lo <= j <= idx+hi
proof fn lemma_frame_is_definition(f: WindowFrame, length: int, idx: int, j: int)
    requires 0 <= idx < length, spec_start(f.start_bound, length, idx) is Some, spec_end(f.end_bound, length, idx) is Some,
    ensures ({
        let s = spec_start(f.start_bound, length, idx)->Some_0;
        let e = spec_end(f.end_bound, length, idx)->Some_0;
        let lo_ok = match lo_of(f.start_bound) { Some(lo) => idx + lo <= j, None => true };
        let hi_ok = match lo_of(f.end_bound) { Some(hi) => j <= idx + hi, None => true };
        (s <= j < e) <==> (0 <= j < length && lo_ok && hi_ok)
    }),
{
}
