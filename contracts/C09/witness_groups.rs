fn witness_groups(s: &WindowFrameStateGroups, a: &ArrayRef, o: &SortOptions)
    requires wf_groups(*s),
{
    let b = WindowFrameBound::Following(ScalarValue::UInt64(Some(3)));
    let r = is_end_bound_safe_for_groups(&b, s, a, None, o);
    //@MUSTFAIL
}
