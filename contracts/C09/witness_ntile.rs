fn witness_ntile() {
    let mut e = NtileEvaluator { n: 4 };
    let r = e.evaluate_all(&[], 10);
    //@MUSTFAIL
}
