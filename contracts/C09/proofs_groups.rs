/// representation invariant of the GROUPS frame state: the current group is one of the known groups
/// (or the next one to be discovered)
spec fn wf_groups(s: WindowFrameStateGroups) -> bool { s.current_group_idx <= s.group_end_indices@.len() }
