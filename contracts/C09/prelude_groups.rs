// trusted: 64-bit target
global size_of usize == 8;
pub struct DataFusionError {}
pub type Result<T> = core::result::Result<T, DataFusionError>;
// type model: the variants the function matches on; every other ScalarValue collapsed into `Other`
pub enum ScalarValue { UInt64(Option<u64>), Other }
pub enum WindowFrameBound { Preceding(ScalarValue), CurrentRow, Following(ScalarValue) }
pub struct DataType {}
pub struct ArrayRef {}
pub struct SortOptions {}
impl ScalarValue {
    #[verifier::external_body]
    pub fn data_type(&self) -> DataType { unimplemented!() }
    #[verifier::external_body]
    pub fn new_zero(_t: &DataType) -> Result<ScalarValue> { unimplemented!() }
    #[verifier::external_body]
    pub fn eq(&self, _o: &ScalarValue) -> bool { unimplemented!() }
}
/// Arrow comparison of the newest ORDER BY value with the previous batch: opaque
#[verifier::external_body]
fn is_row_ahead(old_col: &ArrayRef, current_col: Option<&ArrayRef>, sort_options: &SortOptions) -> Result<bool> { unimplemented!() }
