fn witness_reverse(f: &WindowFrame) {
    let r = f.reverse();
    //@MUSTFAIL
}
