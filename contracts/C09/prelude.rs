// trusted: 64-bit target
global size_of usize == 8;
// opaque error value: error *content* is not part of the property (rewrite R9)
pub struct E {}
pub type Result<T> = core::result::Result<T, E>;
#[verifier::external_body]
fn make_err() -> E { unimplemented!() }
// type model: exactly the variants calculate_range_rows matches on; every other
// ScalarValue variant is collapsed into `Other` (the function treats them alike: `_`)
pub enum ScalarValue { UInt64(Option<u64>), Other }
pub enum WindowFrameBound { Preceding(ScalarValue), CurrentRow, Following(ScalarValue) }
pub struct WindowFrame { pub start_bound: WindowFrameBound, pub end_bound: WindowFrameBound }
