/// first row / one-past-last row of the ROWS frame of row idx in a partition of `length` rows (the definition used by unit
/// rows_frame for calculate_range_rows); None: the bound is not a legal start / end bound
spec fn rstart(b: WindowFrameBound, length: int, idx: int) -> Option<int> {
    match b {
        WindowFrameBound::Preceding(ScalarValue::UInt64(None)) => Some(0),
        WindowFrameBound::Preceding(ScalarValue::UInt64(Some(n))) => Some(if idx - n >= 0 { idx - n } else { 0 }),
        WindowFrameBound::CurrentRow => Some(idx),
        WindowFrameBound::Following(ScalarValue::UInt64(Some(n))) => Some(if idx + n <= length { idx + n } else { length }),
        _ => None,
    }
}
spec fn rend(b: WindowFrameBound, length: int, idx: int) -> Option<int> {
    match b {
        WindowFrameBound::Preceding(ScalarValue::UInt64(Some(n))) => Some(if idx >= n { idx - n + 1 } else { 0 }),
        WindowFrameBound::CurrentRow => Some(idx + 1),
        WindowFrameBound::Following(ScalarValue::UInt64(None)) => Some(length),
        WindowFrameBound::Following(ScalarValue::UInt64(Some(n))) => Some(if idx + n + 1 <= length { idx + n + 1 } else { length }),
        _ => None,
    }
}
/// THE PROPERTY: evaluating the reversed frame on the reversed partition selects the mirror image of the original frame:
/// row idx of the original partition is row length-1-idx of the reversed one, and the frame [s, e) becomes [length-e, length-s)
spec fn mirrors(orig: WindowFrame, rev: WindowFrame) -> bool {
    forall|length: int, idx: int| 0 <= idx < length ==> {
        let ridx = length - 1 - idx;
        &&& (#[trigger] rstart(orig.start_bound, length, idx) is Some <==> rend(rev.end_bound, length, ridx) is Some)
        &&& (rend(orig.end_bound, length, idx) is Some <==> rstart(rev.start_bound, length, ridx) is Some)
        &&& (rstart(orig.start_bound, length, idx) is Some ==> rend(rev.end_bound, length, ridx)->Some_0 == length - rstart(orig.start_bound, length, idx)->Some_0)
        &&& (rend(orig.end_bound, length, idx) is Some ==> rstart(rev.start_bound, length, ridx)->Some_0 == length - rend(orig.end_bound, length, idx)->Some_0)
    }
}
