/// SQL NTILE(n) over N rows: buckets 1..=n, sizes as equal as possible, the first (N mod n) buckets one row larger.
/// first row (0-based) of bucket b (1-based); bucket n+1 starts at N
spec fn ntile_start(nrows: int, n: int, b: int) -> int {
    let base = nrows / n;
    let rem = nrows % n;
    (b - 1) * base + (if b - 1 < rem { b - 1 } else { rem })
}
/// THE DEFINITION: row i lies in bucket b
spec fn in_bucket(nrows: int, n: int, i: int, b: int) -> bool {
    1 <= b <= n && ntile_start(nrows, n, b) <= i < ntile_start(nrows, n, b + 1)
}
proof fn lemma_ntile_large(nrows: int, n: int, i: int)
    requires n >= 1, 0 <= i < nrows, i < (nrows % n) * (nrows / n + 1),
    ensures in_bucket(nrows, n, i, i / (nrows / n + 1) + 1), (nrows % n) * (nrows / n + 1) <= nrows,
{
    let base = nrows / n; let rem = nrows % n; let l = base + 1;
    vstd::arithmetic::div_mod::lemma_fundamental_div_mod(nrows, n);
    vstd::arithmetic::div_mod::lemma_fundamental_div_mod(i, l);
    let q = i / l;
    assert(base >= 0 && 0 <= rem < n) by(nonlinear_arith) requires nrows == n * base + rem, n >= 1, nrows >= 0, rem == nrows % n, base == nrows / n;
    assert(0 <= i % l < l);
    assert(q >= 0) by(nonlinear_arith) requires i == l * q + i % l, i >= 0, 0 <= i % l < l, l >= 1;
    assert(q < rem) by(nonlinear_arith) requires i == l * q + i % l, i < rem * l, i % l >= 0, l >= 1;
    assert(rem * l <= nrows) by(nonlinear_arith) requires nrows == n * base + rem, rem < n, l == base + 1, base >= 0, rem >= 0;
    // start(q+1) = q*base + q = q*l ; start(q+2) = (q+1)*l  (q+1 <= rem)
    assert(q * base + q == l * q) by(nonlinear_arith) requires l == base + 1;
    assert((q + 1) * base + (q + 1) == l * q + l) by(nonlinear_arith) requires l == base + 1;
    assert(q + 1 <= n);
}
proof fn lemma_ntile_small(nrows: int, n: int, i: int)
    requires n >= 1, 0 <= i < nrows, i >= (nrows % n) * (nrows / n + 1),
    ensures nrows / n >= 1, in_bucket(nrows, n, i, nrows % n + (i - (nrows % n) * (nrows / n + 1)) / (nrows / n) + 1),
{
    let base = nrows / n; let rem = nrows % n; let l = base + 1;
    vstd::arithmetic::div_mod::lemma_fundamental_div_mod(nrows, n);
    assert(base >= 0 && 0 <= rem < n) by(nonlinear_arith) requires nrows == n * base + rem, n >= 1, nrows >= 0, rem == nrows % n, base == nrows / n;
    if base == 0 {
        assert(rem * l == rem) by(nonlinear_arith) requires l == 1;
        assert(n * base == 0) by(nonlinear_arith) requires base == 0;
        assert(false);
    }
    let d = i - rem * l;
    vstd::arithmetic::div_mod::lemma_fundamental_div_mod(d, base);
    let q = d / base;
    assert(0 <= d % base < base);
    assert(q >= 0) by(nonlinear_arith) requires d == base * q + d % base, d >= 0, 0 <= d % base < base, base >= 1;
    // d < (n - rem) * base
    assert(rem * l == rem * base + rem) by(nonlinear_arith) requires l == base + 1;
    assert(d < (n - rem) * base) by(nonlinear_arith) requires d == i - rem * l, rem * l == rem * base + rem, i < nrows, nrows == n * base + rem;
    assert(q < n - rem) by(nonlinear_arith) requires d == base * q + d % base, d % base >= 0, d < (n - rem) * base, base >= 1;
    let b = rem + q + 1;
    // start(b) = (rem+q)*base + rem ; start(b+1) = (rem+q+1)*base + rem
    assert((rem + q) * base + rem == rem * l + base * q) by(nonlinear_arith) requires l == base + 1;
    assert((rem + q + 1) * base + rem == rem * l + base * q + base) by(nonlinear_arith) requires l == base + 1;
}
proof fn lemma_large_rows(nrows: int, n: int)
    requires n >= 1, nrows >= 0,
    ensures 0 <= nrows / n <= nrows, 0 <= nrows % n < n, 0 <= (nrows % n) * (nrows / n + 1) <= nrows,
{
    let base = nrows / n; let rem = nrows % n;
    vstd::arithmetic::div_mod::lemma_fundamental_div_mod(nrows, n);
    assert(base >= 0 && 0 <= rem < n) by(nonlinear_arith) requires nrows == n * base + rem, n >= 1, nrows >= 0, rem == nrows % n, base == nrows / n;
    assert(base <= nrows) by(nonlinear_arith) requires nrows == n * base + rem, n >= 1, rem >= 0, base >= 0;
    assert(0 <= rem * (base + 1) <= nrows) by(nonlinear_arith) requires nrows == n * base + rem, rem < n, base >= 0, rem >= 0;
}
