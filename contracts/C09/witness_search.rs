fn witness_search<F: Fn(&[ScalarValue], &[ScalarValue]) -> Result<bool>>(cols: &[ArrayRef], target: &[ScalarValue], f: F, Ghost(p): Ghost<spec_fn(int) -> bool>)
    requires decides(f, cols@, target, p), prefix_closed(p, 2, 9),
{
    let r = find_bisect_point(cols, target, f, Ghost(p), 2, 9);
    //@MUSTFAIL
}
fn witness_linear<F: Fn(&[ScalarValue], &[ScalarValue]) -> Result<bool>>(cols: &[ArrayRef], target: &[ScalarValue], f: F, Ghost(p): Ghost<spec_fn(int) -> bool>)
    requires decides(f, cols@, target, p),
{
    let r = search_in_slice(cols, target, f, Ghost(p), 2, 9);
    //@MUSTFAIL
}
