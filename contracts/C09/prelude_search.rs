// trusted: 64-bit target
global size_of usize == 8;
#[verifier::external_body]
pub struct DataFusionError { _p: u8 }
pub type Result<T> = std::result::Result<T, DataFusionError>;
#[verifier::external_body]
pub struct ScalarValue { _p: u8 }
#[verifier::external_body]
pub struct ArrayRef { _p: u8 }
/// the row i of the sorted columns, as the comparison closure sees it
pub uninterp spec fn row_at(cols: Seq<ArrayRef>, i: int) -> Seq<ScalarValue>;
/// ASSUMED contract of get_row_at_idx (Arrow access)
#[verifier::external_body]
pub fn get_row_at_idx(columns: &[ArrayRef], idx: usize) -> (r: Result<Vec<ScalarValue>>)
    ensures r is Ok ==> r->Ok_0@ == row_at(columns@, idx as int),
{ unimplemented!() }
