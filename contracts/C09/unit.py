"""C09 — window frames: ROWS frame computation (WindowFrameContext::calculate_range_rows)."""
LEVEL = "proof"
F = "datafusion/expr/src/window_state.rs"
VERUS = [dict(
    name="rows_frame",
    uses="use vstd::prelude::*;\nuse std::sync::Arc;\nuse std::ops::Range;\n",
    prelude="prelude.rs", proofs="proofs.rs", witness="witness.rs", rlimit=30, min_verified=4,
    twins=[],
    items=[
        dict(file=F, path=["impl WindowFrameContext", "fn calculate_range_rows"], ret="res",
             edits=[dict(rule="R9", count=4, regex=r"internal_err!\((?:[^()]|\([^()]*\))*\)", replace="Err(make_err())"),
                    dict(rule="R11", count="any", regex=r"std::cmp::min\(", replace="min_usize(")],
             contract="""    requires idx < length,
    ensures
        res is Ok <==> (spec_start(window_frame.start_bound, length as int, idx as int) is Some
                        && spec_end(window_frame.end_bound, length as int, idx as int) is Some),
        res is Ok ==> res->Ok_0.start as int == spec_start(window_frame.start_bound, length as int, idx as int)->Some_0
                   && res->Ok_0.end as int == spec_end(window_frame.end_bound, length as int, idx as int)->Some_0,"""),
    ],
    mutants=[
        dict(name="end_current_row_off_by_one", find="WindowFrameBound::CurrentRow => idx + 1,", replace="WindowFrameBound::CurrentRow => idx,"),
        dict(name="preceding_end_no_plus_one", find="idx - n as usize + 1", replace="idx - n as usize"),
        dict(name="start_preceding_wrapping", find="idx.saturating_sub(n as usize)", replace="idx.wrapping_sub(n as usize)"),
        dict(name="accept_unbounded_following_start", find="""WindowFrameBound::Following(ScalarValue::UInt64(None)) => {
                return Err(make_err());""", replace="""WindowFrameBound::Following(ScalarValue::UInt64(None)) => {
                length"""),
    ],
)]
FW = "datafusion/physical-expr/src/window/window_expr.rs"
VERUS.append(dict(
    name="groups_end_bound_safe",
    uses="use vstd::prelude::*;\nuse std::collections::VecDeque;\n",
    prelude="prelude_groups.rs", proofs="proofs_groups.rs", witness="witness_groups.rs", rlimit=30, min_verified=2, twins=[],
    items=[
        dict(file=F, path=["struct WindowFrameStateGroups"]),
        dict(file=FW, path=["fn is_end_bound_safe_for_groups"], ret="res",
             contract="""    requires wf_groups(*state),
    ensures
        // (memory- and overflow-safety for every u64 offset is the obligation here; functionally:)
        // an end bound `n FOLLOWING` can only be final when exactly n + 1 groups lie at or after the current one
        (end_bound matches WindowFrameBound::Following(ScalarValue::UInt64(Some(n))) &&
            state.group_end_indices@.len() - state.current_group_idx != n + 1) ==> res == Ok::<bool, DataFusionError>(false),
        (end_bound matches WindowFrameBound::Following(ScalarValue::UInt64(None))) ==> res == Ok::<bool, DataFusionError>(false),"""),
    ],
    mutants=[
        dict(name="delta_off_by_one", item="is_end_bound_safe_for_groups", find=".checked_add(1)", replace=".checked_add(2)"),
    ],
))
KANI = []
TRUSTED = ["Verus 0.2026.09.13 + bundled Z3", "global size_of usize == 8", "type model of ScalarValue/WindowFrameBound restricted to the variants the function matches on",
           "rewrites R9 (error macros -> opaque error), R11 (std::cmp::min -> verified min_usize)"]
ASSUMPTIONS = ["precondition idx < length (callers iterate idx over 0..length)", "error content (message text) not verified"]
NOT_COVERED = ["RANGE frames and WindowFrameStateGroups::calculate_index_of_row (VecDeque::back_mut with &mut tuple patterns: outside the Verus subset; matching on WindowFrameBound makes kani-compiler 0.68 panic at rvalue.rs:1009)", "window function evaluators, sliding retraction, executors"]
EXPLANATION = "ROWS frame bounds proved equal to the mathematical frame definition for every u64 offset, every idx < length, with no arithmetic overflow."
