"""C09 — window frames: ROWS frame computation (WindowFrameContext::calculate_range_rows)."""
LEVEL = "proof"
F = "datafusion/expr/src/window_state.rs"
VERUS = [dict(
    name="rows_frame",
    uses="use vstd::prelude::*;\nuse std::sync::Arc;\nuse std::ops::Range;\n",
    prelude="prelude.rs", proofs="proofs.rs", witness="witness.rs", rlimit=30, min_verified=4,
    twins=[],
    items=[
        dict(file=F, path=["impl WindowFrameContext", "fn calculate_range_rows"], ret="res",
             edits=[dict(rule="R9", count=4, regex=r"internal_err!\((?:[^()]|\([^()]*\))*\)", replace="Err(make_err())"),
                    dict(rule="R11", count="any", regex=r"std::cmp::min\(", replace="min_usize(")],
             contract="""    requires idx < length,
    ensures
        res is Ok <==> (spec_start(window_frame.start_bound, length as int, idx as int) is Some
                        && spec_end(window_frame.end_bound, length as int, idx as int) is Some),
        res is Ok ==> res->Ok_0.start as int == spec_start(window_frame.start_bound, length as int, idx as int)->Some_0
                   && res->Ok_0.end as int == spec_end(window_frame.end_bound, length as int, idx as int)->Some_0,"""),
    ],
    mutants=[
        dict(name="end_current_row_off_by_one", find="WindowFrameBound::CurrentRow => idx + 1,", replace="WindowFrameBound::CurrentRow => idx,"),
        dict(name="preceding_end_no_plus_one", find="idx - n as usize + 1", replace="idx - n as usize"),
        dict(name="start_preceding_wrapping", find="idx.saturating_sub(n as usize)", replace="idx.wrapping_sub(n as usize)"),
        dict(name="accept_unbounded_following_start", find="""WindowFrameBound::Following(ScalarValue::UInt64(None)) => {
                return Err(make_err());""", replace="""WindowFrameBound::Following(ScalarValue::UInt64(None)) => {
                length"""),
    ],
)]
FW = "datafusion/physical-expr/src/window/window_expr.rs"
VERUS.append(dict(
    name="groups_end_bound_safe",
    uses="use vstd::prelude::*;\nuse std::collections::VecDeque;\n",
    prelude="prelude_groups.rs", proofs="proofs_groups.rs", witness="witness_groups.rs", rlimit=30, min_verified=2, twins=[],
    items=[
        dict(file=F, path=["struct WindowFrameStateGroups"]),
        dict(file=FW, path=["fn is_end_bound_safe_for_groups"], ret="res",
             contract="""    requires wf_groups(*state),
    ensures
        // (memory- and overflow-safety for every u64 offset is the obligation here; functionally:)
        // an end bound `n FOLLOWING` can only be final when exactly n + 1 groups lie at or after the current one
        (end_bound matches WindowFrameBound::Following(ScalarValue::UInt64(Some(n))) &&
            state.group_end_indices@.len() - state.current_group_idx != n + 1) ==> res == Ok::<bool, DataFusionError>(false),
        (end_bound matches WindowFrameBound::Following(ScalarValue::UInt64(None))) ==> res == Ok::<bool, DataFusionError>(false),"""),
    ],
    mutants=[
        dict(name="delta_off_by_one", item="is_end_bound_safe_for_groups", find=".checked_add(1)", replace=".checked_add(2)"),
    ],
))
FN = "datafusion/functions-window/src/ntile.rs"
VERUS.append(dict(
    name="ntile_buckets",
    uses="use vstd::prelude::*;\n",
    prelude="prelude_ntile.rs", proofs="proofs_ntile.rs", witness="witness_ntile.rs", rlimit=60, min_verified=4, twins=[],
    items=[
        dict(file=FN, path=["struct NtileEvaluator"]),
        dict(file=FN, path=["impl PartitionEvaluator for NtileEvaluator", "fn evaluate_all"], wrap="impl NtileEvaluator", ret="r", loop_count=1,
             edits=[dict(rule="R13", find="Ok(Arc::new(UInt64Array::from(vec)))", replace="finish_u64_column(vec)")],
             contract="""    requires old(self).n >= 1,
        num_rows <= isize::MAX,   // a Vec<u64> of more rows cannot be allocated (`with_capacity` panics first)
    ensures
        r is Ok,
        r->Ok_0.u64_values().len() == num_rows,
        // every row gets THE bucket the SQL definition assigns to it (buckets as equal as possible, larger ones first)
        forall|i: int| 0 <= i < num_rows ==> in_bucket(num_rows as int, old(self).n as int, i, (#[trigger] r->Ok_0.u64_values()[i]) as int),""",
             loops={0: """
        invariant
            n >= 1, n == old(self).n, base == num_rows / n, remainder == num_rows % n, large_bucket_size == base + 1,
            large_rows == remainder * large_bucket_size, large_rows <= num_rows,
            vec@.len() == i,
            forall|j: int| 0 <= j < i ==> in_bucket(num_rows as int, n as int, j, (#[trigger] vec@[j]) as int),
"""},
             proofs=[
                 dict(at="after_stmt:4", text="""
        proof { lemma_large_rows(num_rows as int, n as int); }"""),
                 dict(at="loop_body_start:0", text="""
            proof {
                if (i as int) < (num_rows % n) * (num_rows / n + 1) { lemma_ntile_large(num_rows as int, n as int, i as int); }
                else { lemma_ntile_small(num_rows as int, n as int, i as int); }
            }"""),
             ]),
    ],
    mutants=[
        dict(name="old_formula", item="evaluate_all", find="i / large_bucket_size + 1", replace="i * n / num_rows + 1"),
        dict(name="small_bucket_offset_missing", item="evaluate_all", find="remainder + (i - large_rows) / base + 1", replace="(i - large_rows) / base + 1"),
        dict(name="large_rows_wrong", item="evaluate_all", find="let large_rows = remainder * large_bucket_size;", replace="let large_rows = remainder * base;"),
        dict(name="zero_based_bucket", item="evaluate_all", find="i / large_bucket_size + 1", replace="i / large_bucket_size"),
    ],
))
FU = "datafusion/common/src/utils/mod.rs"
_SEARCH_EDITS = [
    dict(rule="G1", find="    compare_fn: F,\n", replace="    compare_fn: F,\n    Ghost(p): Ghost<spec_fn(int) -> bool>,\n"),
    dict(rule="R3", regex=r"compare_fn\(&val, target\)\?", replace="compare_fn(val.as_slice(), target)?", count="any"),
]
VERUS.append(dict(
    name="range_search_kernels",
    uses="use vstd::prelude::*;\n",
    prelude="prelude_search.rs", proofs="proofs_search.rs", witness="witness_search.rs", rlimit=60, min_verified=3, twins=[],
    items=[
        dict(file=FU, path=["fn find_bisect_point"], ret="r", loop_count=1, edits=_SEARCH_EDITS,
             contract="""    requires decides(compare_fn, item_columns@, target, p), prefix_closed(p, low as int, high as int),
    ensures
        // the partition point of the predicate on [low, high): everything before satisfies it, nothing from it on does
        r is Ok ==> (if low <= high { low <= r->Ok_0 <= high } else { r->Ok_0 == low })
            && (forall|i: int| low <= i < r->Ok_0 ==> #[trigger] p(i)) && (forall|i: int| r->Ok_0 <= i < high ==> !#[trigger] p(i)),""",
             loops={0: """
        invariant
            decides(compare_fn, item_columns@, target, p), prefix_closed(p, low0 as int, high0 as int),
            low0 <= low, high <= high0, low0 <= high0 ==> low <= high, low0 > high0 ==> low == low0,
            forall|i: int| low0 <= i < low ==> #[trigger] p(i), forall|i: int| high <= i < high0 ==> !#[trigger] p(i),
        decreases high - low
"""},
             proofs=[dict(at="body_start", text="\n    let ghost low0 = low; let ghost high0 = high;")]),
        dict(file=FU, path=["fn search_in_slice"], ret="r", loop_count=1, edits=_SEARCH_EDITS,
             contract="""    requires decides(compare_fn, item_columns@, target, p),
    ensures
        // linear scan: the first row of [low, high) that fails the predicate (or high)
        r is Ok ==> (if low <= high { low <= r->Ok_0 <= high } else { r->Ok_0 == low })
            && (forall|i: int| low <= i < r->Ok_0 ==> #[trigger] p(i)) && (r->Ok_0 < high ==> !p(r->Ok_0 as int)),""",
             loops={0: """
        invariant
            decides(compare_fn, item_columns@, target, p),
            low0 <= low, low0 <= high ==> low <= high, low0 > high ==> low == low0,
            forall|i: int| low0 <= i < low ==> #[trigger] p(i),
        ensures
            low0 <= low, low0 <= high ==> low <= high, low0 > high ==> low == low0, forall|i: int| low0 <= i < low ==> #[trigger] p(i), low < high ==> !p(low as int),
        decreases high - low
"""},
             proofs=[dict(at="body_start", text="\n    let ghost low0 = low;")]),
    ],
    mutants=[
        dict(name="bisect_low_not_advanced", item="find_bisect_point", find="low = mid + 1;", replace="low = mid;"),
        dict(name="bisect_high_skips_mid", item="find_bisect_point", find="high = mid;", replace="high = mid - 1;"),
        dict(name="bisect_midpoint_overflow", item="find_bisect_point", find="let mid = ((high - low) / 2) + low;", replace="let mid = (high + low) / 2;"),
        dict(name="bisect_branches_swapped", item="find_bisect_point", find="if compare_fn(val.as_slice(), target)? {", replace="if !compare_fn(val.as_slice(), target)? {"),
        dict(name="linear_stop_inverted", item="search_in_slice", find="if !compare_fn(val.as_slice(), target)? {", replace="if compare_fn(val.as_slice(), target)? {"),
        dict(name="linear_skips_rows", item="search_in_slice", find="low += 1;", replace="low += 2;"),
    ],
))
FWF = "datafusion/expr/src/window_frame.rs"
_DERC = "#[derive(PartialEq, Eq, Structural, Clone, Copy)]\n"
VERUS.append(dict(
    name="window_frame_reverse",
    uses="use vstd::prelude::*;\n",
    prelude="prelude_reverse.rs", proofs="proofs_reverse.rs", witness="witness_reverse.rs", rlimit=60, min_verified=1, twins=[], std_specs=False,
    items=[
        dict(file=FWF, path=["enum WindowFrameUnits"], prefix=_DERC),
        dict(file=FWF, path=["enum WindowFrameBound"], prefix=_DERC),
        dict(file=FWF, path=["struct WindowFrame"], prefix=_DERC),
        dict(file=FWF, path=["impl WindowFrame", "fn reverse"], wrap="impl WindowFrame", ret="r",
             edits=[dict(rule="R3", regex=r"value\.clone\(\)", replace="*value", count=4)],
             contract="""    ensures r.units == self.units,
        // the reversed frame on the reversed partition selects the mirror image of the frame (ROWS semantics)
        mirrors(*self, r),"""),
    ],
    mutants=[
        dict(name="reverse_keeps_direction", item="reverse", find="WindowFrameBound::Preceding(value) => {\n                WindowFrameBound::Following(*value)", replace="WindowFrameBound::Preceding(value) => {\n                WindowFrameBound::Preceding(*value)"),
        dict(name="reverse_does_not_exchange_bounds", item="reverse", find="let start_bound = match &self.end_bound {", replace="let start_bound = match &self.start_bound {"),
    ],
))
KANI = [dict(package="datafusion-common", module="common/utils.rs", timeout=900, harnesses=[
    dict(name="c09_search_in_slice_bounded", complete=False, bound="5 rows, arbitrary predicate (2^5), every 0 <= low <= high <= 5; get_row_at_idx stubbed (row i = [UInt64(i)])",
         what="Kani twin of the Verus unit on the unextracted search_in_slice: first row of [low, high) failing the predicate, or high"),
    dict(name="c09_find_bisect_point_bounded", complete=False, bound="5 rows, every prefix-closed predicate (cut point), every 0 <= low <= high <= 5; get_row_at_idx stubbed",
         what="Kani twin of the Verus unit on the unextracted find_bisect_point: the partition point of the predicate"),
])]
TRUSTED = ["Verus 0.2026.09.13 + bundled Z3", "global size_of usize == 8", "type model of ScalarValue/WindowFrameBound restricted to the variants the function matches on",
           "rewrites R9 (error macros -> opaque error), R11 (std::cmp::min -> verified min_usize)"]
ASSUMPTIONS = ["precondition idx < length (callers iterate idx over 0..length)", "error content (message text) not verified"]
NOT_COVERED = ["RANGE frames and WindowFrameStateGroups::calculate_index_of_row (VecDeque::back_mut with &mut tuple patterns: outside the Verus subset; matching on WindowFrameBound makes kani-compiler 0.68 panic at rvalue.rs:1009)", "window function evaluators, sliding retraction, executors"]
TRUSTED += ["window_frame_reverse: Copy type model of ScalarValue (UInt64 offsets), WindowFrame::new_bounds behind an assumed contract (stores units and bounds as given)", "ASSUMED contract of get_row_at_idx (Arrow access) and of UInt64Array::from (prelude_search.rs / prelude_ntile.rs)", "G1: ghost parameter naming the predicate the comparison closure decides"]
ASSUMPTIONS += ["NtileEvaluator.n >= 1 (rejected at construction otherwise), num_rows <= isize::MAX", "find_bisect_point: the predicate is prefix-closed on [low, high) (sortedness of the ORDER BY column)"]
EXPLANATION = "ROWS frame bounds proved equal to the mathematical frame definition for every u64 offset, every idx < length, with no arithmetic overflow."
