// type model for WindowFrame::reverse: the offset of a bound is an optional u64 (NULL = UNBOUNDED)
#[derive(PartialEq, Eq, Structural, Clone, Copy)]
pub enum ScalarValue { UInt64(Option<u64>), Other }
impl WindowFrame {
    /// ASSUMED contract of WindowFrame::new_bounds: stores units and bounds as given (the `causal` flag it computes is not
    /// part of this unit)
    #[verifier::external_body]
    fn new_bounds(units: WindowFrameUnits, start_bound: WindowFrameBound, end_bound: WindowFrameBound) -> (r: Self)
        ensures r.units == units, r.start_bound == start_bound, r.end_bound == end_bound,
    { unimplemented!() }
}
