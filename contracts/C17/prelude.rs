// trusted: 64-bit target
global size_of usize == 8;
// type model of the dependencies the FairSpillPool methods touch (fields they read only)
pub struct DataFusionError {}
pub type Result<T> = core::result::Result<T, DataFusionError>;
pub struct MemoryConsumer { pub can_spill: bool }
pub struct SharedRegistration { pub consumer: MemoryConsumer }
/// the real `size` is an AtomicUsize read with `size()`; inside the pool's critical
/// section it is a plain value
pub struct MemoryReservation { pub registration: Arc<SharedRegistration>, pub size: usize }
impl MemoryReservation {
    pub fn size(&self) -> (r: usize) ensures r == self.size { self.size }
}
// opaque error constructor (error text is not part of the property)
#[verifier::external_body]
fn insufficient_capacity_err(reservation: &MemoryReservation, additional: usize, available: usize, pool: &FairSpillPool) -> DataFusionError
{ unimplemented!() }
