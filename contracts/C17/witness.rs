fn witness_try_grow() {
    let pool = FairSpillPool { pool_size: 100 };
    let mut st = FairSpillPoolState { num_spill: 2, spillable: 10, unspillable: 20 };
    let r = MemoryReservation { registration: Arc::new(SharedRegistration { consumer: MemoryConsumer { can_spill: true } }), size: 10 };
    let res = pool.try_grow(&mut st, &r, 5);
    //@MUSTFAIL
}
fn witness_grow_shrink() {
    let pool = FairSpillPool { pool_size: 100 };
    let mut st = FairSpillPoolState { num_spill: 0, spillable: 0, unspillable: 20 };
    let r = MemoryReservation { registration: Arc::new(SharedRegistration { consumer: MemoryConsumer { can_spill: false } }), size: 20 };
    pool.grow(&mut st, &r, 5);
    pool.shrink(&mut st, &r, 25);
    let t = pool.reserved(&st);
    //@MUSTFAIL
}
fn witness_register() {
    let pool = FairSpillPool { pool_size: 100 };
    let mut st = FairSpillPoolState { num_spill: 0, spillable: 0, unspillable: 0 };
    let c = MemoryConsumer { can_spill: true };
    pool.register(&mut st, &c);
    pool.unregister(&mut st, &c);
    //@MUSTFAIL
}
