/// machine-arithmetic range: every byte count handled here stays below 2^62, so sums of
/// three of them cannot wrap (stated as an assumption in the evidence)
spec fn small(x: usize) -> bool { x <= usize::MAX / 4 }

spec fn inv(s: FairSpillPoolState) -> bool { small(s.spillable) && small(s.unspillable) }

/// the fair share of one spilling consumer
spec fn fair_share(pool_size: usize, s: FairSpillPoolState) -> int {
    let avail = if pool_size >= s.unspillable { pool_size - s.unspillable } else { 0 };
    if s.num_spill == 0 { avail as int } else { avail as int / s.num_spill as int }
}

/// corollary used by the property text: "never beyond a spilling consumer's fair share of the
/// non-spillable remainder": share * num_spill <= pool_size - unspillable
proof fn lemma_fair_share_bound(pool_size: usize, s: FairSpillPoolState, want: int)
    requires 0 <= want <= fair_share(pool_size, s), s.num_spill >= 1,
    ensures want * s.num_spill as int <= (if pool_size >= s.unspillable { pool_size - s.unspillable } else { 0 }) as int,
{
    let avail = (if pool_size >= s.unspillable { pool_size - s.unspillable } else { 0 }) as int;
    let n = s.num_spill as int;
    vstd::arithmetic::div_mod::lemma_fundamental_div_mod(avail, n);
    assert(want * n <= (avail / n) * n) by(nonlinear_arith) requires 0 <= want <= avail / n, n >= 1;
    assert((avail / n) * n <= avail) by(nonlinear_arith) requires avail == n * (avail / n) + avail % n, avail % n >= 0;
}
