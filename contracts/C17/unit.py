"""C17 — memory pool accounting exact, limits enforced."""
LEVEL = "proof"
F = "datafusion/execution/src/memory_pool/pool.rs"
IMPL = "impl MemoryPool for FairSpillPool"
W = "impl FairSpillPool"
# R10: lock elision. the critical section becomes a function of the protected state
SIG_MUT = dict(rule="R10", regex=r"\(&self, ", replace="(&self, state: &mut FairSpillPoolState, ", count=1)
LOCK = dict(rule="R10", find="let mut state = self.state.lock();", replace="", count=1)
UNCH = "final(state).num_spill == old(state).num_spill"

VERUS = [dict(
    name="fair_spill_pool",
    uses="use vstd::prelude::*;\nuse std::sync::Arc;\n",
    prelude="prelude.rs", proofs="proofs.rs", witness="witness.rs", rlimit=30, min_verified=9,
    twins=["c17_fair_try_grow_narrow_bounded"],
    items=[
        dict(file=F, path=["struct FairSpillPool"],
             edits=[dict(rule="R10", find="state: Mutex<FairSpillPoolState>,", replace="")]),
        dict(file=F, path=["struct FairSpillPoolState"]),
        dict(file=F, path=[IMPL, "fn register"], wrap=W,
             edits=[SIG_MUT, dict(rule="R10", find="self.state.lock().num_spill += 1;", replace="state.num_spill += 1;")],
             contract="""    requires old(state).num_spill < usize::MAX,
    ensures final(state).num_spill == old(state).num_spill + (if consumer.can_spill { 1int } else { 0int }),
            final(state).spillable == old(state).spillable, final(state).unspillable == old(state).unspillable,"""),
        dict(file=F, path=[IMPL, "fn unregister"], wrap=W, edits=[SIG_MUT, LOCK],
             contract="""    requires consumer.can_spill ==> old(state).num_spill >= 1,   // ghost: it was registered before
    ensures final(state).num_spill == old(state).num_spill - (if consumer.can_spill { 1int } else { 0int }),
            final(state).spillable == old(state).spillable, final(state).unspillable == old(state).unspillable,"""),
        dict(file=F, path=[IMPL, "fn grow"], wrap=W, edits=[SIG_MUT, LOCK],
             contract="""    requires inv(*old(state)), small(additional),
    ensures """ + UNCH + """,
            reservation.registration.consumer.can_spill ==> final(state).spillable == old(state).spillable + additional && final(state).unspillable == old(state).unspillable,
            !reservation.registration.consumer.can_spill ==> final(state).unspillable == old(state).unspillable + additional && final(state).spillable == old(state).spillable,"""),
        dict(file=F, path=[IMPL, "fn shrink"], wrap=W, edits=[SIG_MUT, LOCK],
             contract="""    requires // a reservation only returns what it holds, and what it holds is part of the total (ghost ledger)
             reservation.registration.consumer.can_spill ==> shrink <= old(state).spillable,
             !reservation.registration.consumer.can_spill ==> shrink <= old(state).unspillable,
    ensures """ + UNCH + """,
            reservation.registration.consumer.can_spill ==> final(state).spillable == old(state).spillable - shrink && final(state).unspillable == old(state).unspillable,
            !reservation.registration.consumer.can_spill ==> final(state).unspillable == old(state).unspillable - shrink && final(state).spillable == old(state).spillable,"""),
        dict(file=F, path=[IMPL, "fn try_grow"], wrap=W, ret="res", edits=[SIG_MUT, LOCK],
             contract="""    requires inv(*old(state)), small(additional), small(reservation.size),
    ensures
        // a failed growth attempt changes nothing
        res is Err ==> *final(state) == *old(state),
        res is Ok ==> """ + UNCH + """,
        // spilling consumer: granted iff within its fair share of the non-spillable remainder
        reservation.registration.consumer.can_spill ==> (
            (res is Ok <==> reservation.size + additional <= fair_share(self.pool_size, *old(state)))
            && (res is Ok ==> final(state).spillable == old(state).spillable + additional
                              && final(state).unspillable == old(state).unspillable)),
        // non-spilling consumer: granted iff it fits into what is left of the pool
        !reservation.registration.consumer.can_spill ==> (
            (res is Ok <==> additional <= (if self.pool_size >= old(state).unspillable + old(state).spillable
                                            { self.pool_size - (old(state).unspillable + old(state).spillable) } else { 0 }))
            && (res is Ok ==> final(state).unspillable == old(state).unspillable + additional
                              && final(state).spillable == old(state).spillable
                              && (additional == 0 || final(state).unspillable + final(state).spillable <= self.pool_size))),"""),
        dict(file=F, path=[IMPL, "fn reserved"], wrap=W, ret="r",
             edits=[dict(rule="R10", find="(&self)", replace="(&self, state: &FairSpillPoolState)"),
                    dict(rule="R10", find="let state = self.state.lock();", replace="")],
             contract="    requires inv(*state),\n    ensures r == state.spillable + state.unspillable,"),
    ],
    mutants=[
        dict(name="try_grow_err_after_update", item="try_grow", find="""                if available < additional {""", replace="""                state.unspillable += additional;
                if available < additional {"""),
        dict(name="fair_share_ignores_unspillable", item="try_grow", find="self.pool_size.saturating_sub(state.unspillable);", replace="self.pool_size;"),
        dict(name="fair_share_off_by_one", item="try_grow", find="reservation.size() + additional > available", replace="reservation.size() + additional > available + 1"),
        dict(name="nonspill_ignores_spillable", item="try_grow", find=".saturating_sub(state.unspillable + state.spillable);", replace=".saturating_sub(state.unspillable);"),
        dict(name="shrink_wrong_counter", item="shrink", find="true => state.spillable -= shrink,", replace="true => state.unspillable -= shrink,"),
        dict(name="grow_wrong_counter", item="grow", find="false => state.unspillable += additional,", replace="false => state.spillable += additional,"),
        dict(name="reserved_forgets_unspillable", item="reserved", find="state.spillable + state.unspillable", replace="state.spillable"),
    ],
)]
KANI = []
TRUSTED = ["Verus 0.2026.09.13 + bundled Z3", "rewrite R10 (lock elision): inside the pool mutex a method is a function of FairSpillPoolState; concurrency not claimed",
           "type model of MemoryReservation/MemoryConsumer (fields read by the pool only); insufficient_capacity_err opaque"]
ASSUMPTIONS = ["all byte counts <= usize::MAX/4 (no wrap of sums of up to three counts)", "sequential semantics; per-operation contracts are the linearisation-point specifications, the concurrent step is not machine-checked"]
NOT_COVERED = ["error path of MemoryReservation::try_shrink (capacity > size): with std::fmt::format stubbed Kani 0.68 reports a spurious dealloc of an uninitialised String inside the error macro, with real formatting CBMC does not finish; by reading, the path performs no store", "thread interleavings", "TrackConsumersPool's per-consumer HashMap beyond TrackedConsumer"]
EXPLANATION = ""

KANI = [dict(package="datafusion-execution", timeout=900, harnesses=[
    dict(name="c17_greedy_try_grow", module="execution/memory_pool_pool.rs", complete=True,
         what="GreedyMemoryPool::try_grow, full domain (<= usize::MAX/2): granted iff used+a <= pool_size; Ok adds exactly; Err changes nothing"),
    dict(name="c17_greedy_unbounded_grow_shrink", module="execution/memory_pool_pool.rs", complete=True,
         what="Greedy/Unbounded grow, shrink, try_grow: exact deltas, reserved() reports the counter"),
    dict(name="c17_tracked_consumer", module="execution/memory_pool_pool.rs", complete=True,
         what="TrackedConsumer::{grow, shrink}: exact reserved, peak = running max >= reserved"),
    dict(name="c17_fair_try_grow_narrow_bounded", module="execution/memory_pool_pool.rs", complete=False, bound="all counters < 2^10, num_spill < 8",
         what="Kani twin of the Verus unit on the unextracted FairSpillPool::try_grow (cross-check of rewrite R10)"),
    dict(name="c17_peak_recording", module="execution/peak_recording.rs", complete=True,
         what="PeakRecordingPool::{try_grow, grow, shrink, reset_peak} over an inner pool with arbitrary outcome: exact running total, peak/max are running maxima, failed attempt moves nothing, peak >= current, max >= peak"),
    dict(name="c17_ledger_grow", module="execution/memory_pool_mod.rs", complete=True,
         what="MemoryReservation::grow against the pool contract: reserved() == sum of live reservations afterwards, exact delta on the named reservation, the other untouched; after dropping all reservations reserved() is back to the foreign bytes and every consumer is unregistered"),
    dict(name="c17_ledger_try_grow", module="execution/memory_pool_mod.rs", complete=True,
         what="MemoryReservation::try_grow (Err => nothing changes) against the pool contract: reserved() == sum of live reservations afterwards, exact delta on the named reservation, the other untouched; after dropping all reservations reserved() is back to the foreign bytes and every consumer is unregistered"),
    dict(name="c17_ledger_shrink", module="execution/memory_pool_mod.rs", complete=True,
         what="MemoryReservation::shrink against the pool contract: reserved() == sum of live reservations afterwards, exact delta on the named reservation, the other untouched; after dropping all reservations reserved() is back to the foreign bytes and every consumer is unregistered"),
    dict(name="c17_ledger_try_shrink", module="execution/memory_pool_mod.rs", complete=True,
         what="MemoryReservation::try_shrink (Err iff beyond size, nothing changes) against the pool contract: reserved() == sum of live reservations afterwards, exact delta on the named reservation, the other untouched; after dropping all reservations reserved() is back to the foreign bytes and every consumer is unregistered"),
    dict(name="c17_ledger_free", module="execution/memory_pool_mod.rs", complete=True,
         what="MemoryReservation::free against the pool contract: reserved() == sum of live reservations afterwards, exact delta on the named reservation, the other untouched; after dropping all reservations reserved() is back to the foreign bytes and every consumer is unregistered"),
    dict(name="c17_ledger_resize", module="execution/memory_pool_mod.rs", complete=True,
         what="MemoryReservation::resize against the pool contract: reserved() == sum of live reservations afterwards, exact delta on the named reservation, the other untouched; after dropping all reservations reserved() is back to the foreign bytes and every consumer is unregistered"),
    dict(name="c17_ledger_try_resize", module="execution/memory_pool_mod.rs", complete=True,
         what="MemoryReservation::try_resize against the pool contract: reserved() == sum of live reservations afterwards, exact delta on the named reservation, the other untouched; after dropping all reservations reserved() is back to the foreign bytes and every consumer is unregistered"),
    dict(name="c17_ledger_split", module="execution/memory_pool_mod.rs", complete=True,
         what="MemoryReservation::split + drop of the split-off reservation (shared consumer) against the pool contract: reserved() == sum of live reservations afterwards, exact delta on the named reservation, the other untouched; after dropping all reservations reserved() is back to the foreign bytes and every consumer is unregistered"),
    dict(name="c17_ledger_take", module="execution/memory_pool_mod.rs", complete=True,
         what="MemoryReservation::take + drop (shared consumer) against the pool contract: reserved() == sum of live reservations afterwards, exact delta on the named reservation, the other untouched; after dropping all reservations reserved() is back to the foreign bytes and every consumer is unregistered"),
    dict(name="c17_ledger_try_grow_shared_consumer", module="execution/memory_pool_mod.rs", complete=True,
         what="MemoryReservation::try_grow with two reservations of one consumer against the pool contract: reserved() == sum of live reservations afterwards, exact delta on the named reservation, the other untouched; after dropping all reservations reserved() is back to the foreign bytes and every consumer is unregistered"),
    dict(name="c17_ledger_free_shared_consumer", module="execution/memory_pool_mod.rs", complete=True,
         what="MemoryReservation::free with two reservations of one consumer against the pool contract: reserved() == sum of live reservations afterwards, exact delta on the named reservation, the other untouched; after dropping all reservations reserved() is back to the foreign bytes and every consumer is unregistered"),
    dict(name="c17_shared_registration_drop", module="execution/memory_pool_mod.rs", complete=True,
         what="impl Drop for SharedRegistration: unregisters its consumer from its pool exactly once and releases its pool handle (the contract the ledger harnesses use through a counting stub)"),
    dict(name="c17_ledger_shrink_beyond_size_panics", module="execution/memory_pool_mod.rs", complete=True,
         what="shrink/split beyond the reservation size panic (should_panic harness)"),
])]
TRUSTED += ["Kani 0.68 / CBMC 6.11; atomics executed sequentially", "parking_lot slow paths stubbed unreachable (no contention without threads)",
            "ledger harness uses a pool double that obeys exactly the try_grow contract proved for the real pools (modular step)"]
ASSUMPTIONS += ["Kani harnesses: byte counts <= usize::MAX/8 resp. /2 (no wrap)"]
EXPLANATION = "FairSpillPool proved in Verus (division/fair share), all other pools and the reservation ledger proved by loop-free full-domain Kani harnesses on the real crate."
