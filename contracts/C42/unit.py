"""C42 — tree traversal follows its recursion contract (datafusion/common/src/tree_node.rs)."""
LEVEL = "proof"
VERUS = []
M = "common/tree_node.rs"
KANI = [dict(package="datafusion-common", module=M, harnesses=[
    dict(name="c42_visit_children", complete=True, what="TreeNodeRecursion::visit_children: closure called iff Continue; Jump consumed -> Continue; Stop propagates; all 3x3x2 cases"),
    dict(name="c42_visit_sibling", complete=True, what="TreeNodeRecursion::visit_sibling: closure called iff Continue|Jump; Stop propagates"),
    dict(name="c42_visit_parent", complete=True, what="TreeNodeRecursion::visit_parent: closure called iff Continue; Jump and Stop propagate unchanged"),
    dict(name="c42_transform_children", complete=True, what="Transformed::transform_children over all (data:u16, flag, tnr) x all closure results: call iff Continue, Jump consumed, flag = OR"),
    dict(name="c42_transform_sibling", complete=True, what="Transformed::transform_sibling, same contract shape"),
    dict(name="c42_transform_parent", complete=True, what="Transformed::transform_parent, same contract shape"),
    dict(name="c42_transform_data_update_map", complete=True, what="transform_data / update_data / map_data keep or OR the changed flag and keep tnr as documented"),
    dict(name="c42_apply_until_stop_bounded", complete=False, bound="iterator length <= 4", what="TreeNodeIterator::apply_until_stop == reference loop (order, early stop, error)"),
    dict(name="c42_map_until_stop_bounded", complete=False, bound="iterator length <= 3", what="TreeNodeIterator::map_until_stop_and_collect == reference (prefix mapped, suffix kept, flag OR, last tnr)"),
    dict(name="c42_apply_tree4_bounded", complete=False, bound="one 4-node tree (depth 3), all 3^4 decision vectors", what="real TreeNode::apply on a ConcreteTreeNode == reference pre-order with prune/stop"),
    dict(name="c42_visit_tree4_bounded", complete=False, bound="one 4-node tree, all 3^4 x 3^4 down/up decision vectors", what="real TreeNode::visit == independent reference of the combined walk"),
    dict(name="c42_transform_down_tree4_bounded", complete=False, bound="one 4-node tree, all 3^4 x 2^4 vectors", what="real TreeNode::transform_down: rewritten tree == exactly the callback's replacements; changed flag <=> some replacement"),
    dict(name="c42_transform_down_up_tree4_bounded", complete=False, bound="one 4-node tree, all 3^8 x 2^8 down/up decision and change vectors", what="real TreeNode::transform_down_up (handle_transform_recursion!) == independent reference: callback order, tree, changed flag, final state"),
    dict(name="c42_rewrite_tree4_bounded", complete=False, bound="one 4-node tree, all 3^8 x 2^8 vectors", what="real TreeNode::rewrite with a TreeNodeRewriter == the same reference"),
    dict(name="c42_containers_apply_bounded", complete=False, bound="container (Vec of 2, Option, Box) = 4 leaves, all 3^4 decision vectors", what="TreeNodeContainer::apply_elements for Vec / Option / Box / 3-tuple: siblings in order until the first Stop, result = last decision"),
    dict(name="c42_containers_map_bounded", complete=False, bound="same container, all 3^4 x 2^4 vectors", what="TreeNodeContainer::map_elements for Vec / Option / Box / 3-tuple: in order, stops at Stop, exactly the replacements, changed flag = OR, result = last decision"),
    dict(name="c42_transform_up_tree4_bounded", complete=False, bound="one 4-node tree, all 3^4 x 2^4 vectors", what="real TreeNode::transform_up (post-order, Jump skips ancestors) == reference"),
])]
TRUSTED = ["Kani 0.68 / CBMC 6.11 soundness", "Rust std Vec/iterator code is executed by CBMC as compiled MIR (not stubbed)"]
ASSUMPTIONS = [
    "error values are opaque (results are mem::forget-ed so the DataFusionError drop glue stays out of the formula)",
    "the induction from the combinator contracts (complete) to trees of arbitrary size is a paper argument; whole-tree harnesses are bounded to one 4-node tree",
    "Expr/LogicalPlan/ExecutionPlan map_children implementations are not covered",
]
NOT_COVERED = ["TreeNodeContainer impls for HashMap, Arc, 2- and 4-tuples, TreeNodeRefContainer", "concrete node types (Expr, LogicalPlan, ExecutionPlan)", "trees other than the one 4-node shape"]
EXPLANATION = "Complete proofs for the loop-free control combinators every traversal is built from; bounded whole-tree checks of the real generic default methods."
