// type model: the two variants of DataType / ScalarValue that boolean (truth-value) intervals use
#[derive(PartialEq, Eq, Structural, Clone, Copy)]
pub enum DataType { Boolean, Int64, Other }
#[derive(PartialEq, Eq, Structural, Clone, Copy)]
pub enum ScalarValue { Boolean(Option<bool>), Int64(Option<i64>), Other }
impl ScalarValue {
    pub open spec fn spec_data_type(self) -> DataType { match self { ScalarValue::Boolean(_) => DataType::Boolean, ScalarValue::Int64(_) => DataType::Int64, ScalarValue::Other => DataType::Other } }
    /// ScalarValue::data_type on the model
    pub fn data_type(&self) -> (r: DataType) ensures r == self.spec_data_type() {
        match self { ScalarValue::Boolean(_) => DataType::Boolean, ScalarValue::Int64(_) => DataType::Int64, ScalarValue::Other => DataType::Other }
    }
    /// ScalarValue::is_null on the model (a NULL endpoint means 'unbounded')
    pub fn is_null(&self) -> (r: bool) ensures r == (*self == ScalarValue::Boolean(None) || *self == ScalarValue::Int64(None)) {
        match self { ScalarValue::Boolean(None) => true, ScalarValue::Int64(None) => true, _ => false }
    }
}
#[verifier::external_body]
pub struct DataFusionError { _p: u8 }
pub type Result<T> = std::result::Result<T, DataFusionError>;
/// R9: stands for the error built by `assert_eq_or_internal_err!` / `internal_err!`
#[verifier::external_body]
pub fn make_err<T>() -> (r: Result<T>) ensures r is Err { unimplemented!() }
/// ASSUMED contract of Interval::contains_value restricted to what the three-valued connectives use: a boolean value against
/// a well-formed boolean interval (the real function goes through casts and ScalarValue comparison)
impl Interval {
    #[verifier::external_body]
    fn contains_value(&self, value: ScalarValue) -> (r: Result<bool>)
        requires bool_iv(*self), value matches ScalarValue::Boolean(Some(_)),
        ensures r is Ok, r->Ok_0 == has(iv_mask(*self), if value == ScalarValue::Boolean(Some(true)) { 4int } else { 1int }),
    { unimplemented!() }
}
pub open spec fn int_of(v: ScalarValue) -> Option<int> { match v { ScalarValue::Int64(Some(x)) => Some(x as int), _ => None } }
/// R13: `a <= b`, `a < b`, `a >= b`, `a > b` on ScalarValue (PartialOrd), specified for two Int64 values: the comparison of
/// the two Option<i64> payloads, in which None (NULL) sorts before every Some
pub open spec fn opt_le(a: Option<int>, b: Option<int>) -> bool { match (a, b) { (None, _) => true, (Some(_), None) => false, (Some(x), Some(y)) => x <= y } }
pub open spec fn opt_lt(a: Option<int>, b: Option<int>) -> bool { match (a, b) { (None, None) => false, (None, Some(_)) => true, (Some(_), None) => false, (Some(x), Some(y)) => x < y } }
#[verifier::external_body]
pub fn sv_le(a: ScalarValue, b: ScalarValue) -> (r: bool)
    ensures (a is Int64 && b is Int64) ==> r == opt_le(int_of(a), int_of(b)) { unimplemented!() }
#[verifier::external_body]
pub fn sv_lt(a: ScalarValue, b: ScalarValue) -> (r: bool)
    ensures (a is Int64 && b is Int64) ==> r == opt_lt(int_of(a), int_of(b)) { unimplemented!() }
/// ASSUMED contract of coerce_for_comparison for operands of the same data type (no cast needed: both results None);
/// operands of different types go through comparison_coercion + Arrow casts and are not covered
#[verifier::external_body]
fn coerce_for_comparison(lhs: &Interval, rhs: &Interval) -> (r: Result<(Option<Interval>, Option<Interval>)>)
    ensures lhs.lower.spec_data_type() == rhs.lower.spec_data_type() ==> r is Ok && r->Ok_0.0 is None && r->Ok_0.1 is None,
{ unimplemented!() }
/// R13: stands for `x_owned.as_ref().unwrap_or(x)`
fn owned_or<'a>(owned: &'a Option<Interval>, fallback: &'a Interval) -> (r: &'a Interval)
    ensures *r == (if *owned is Some { owned->Some_0 } else { *fallback }),
{
    match owned { Some(i) => i, None => fallback }
}
/// ASSUMED contracts (read off the macro-generated code, outside the Verus subset) for the Int64 instance:
/// Interval::new keeps Int64 endpoints as they are; next_value / prev_value step by one and turn the extreme value into
/// NULL (= unbounded)
#[verifier::external_body]
fn interval_new(lower: ScalarValue, upper: ScalarValue) -> (r: Interval)
    requires lower is Int64, upper is Int64,
    ensures r.lower == lower, r.upper == upper,
{ unimplemented!() }
#[verifier::external_body]
fn next_value(value: ScalarValue) -> (r: ScalarValue)
    requires value is Int64,
    ensures r is Int64, int_of(value) is None ==> int_of(r) is None,
        int_of(value) is Some ==> int_of(r) == (if int_of(value)->Some_0 == i64::MAX { None::<int> } else { Some(int_of(value)->Some_0 + 1) }),
{ unimplemented!() }
#[verifier::external_body]
fn prev_value(value: ScalarValue) -> (r: ScalarValue)
    requires value is Int64,
    ensures r is Int64, int_of(value) is None ==> int_of(r) is None,
        int_of(value) is Some ==> int_of(r) == (if int_of(value)->Some_0 == i64::MIN { None::<int> } else { Some(int_of(value)->Some_0 - 1) }),
{ unimplemented!() }
