// type model: the two variants of DataType / ScalarValue that boolean (truth-value) intervals use
#[derive(PartialEq, Eq, Structural, Clone, Copy)]
pub enum DataType { Boolean, Other }
#[derive(PartialEq, Eq, Structural, Clone, Copy)]
pub enum ScalarValue { Boolean(Option<bool>), Other }
impl ScalarValue {
    pub open spec fn spec_data_type(self) -> DataType { match self { ScalarValue::Boolean(_) => DataType::Boolean, ScalarValue::Other => DataType::Other } }
    /// ScalarValue::data_type on the model
    pub fn data_type(&self) -> (r: DataType) ensures r == self.spec_data_type() {
        match self { ScalarValue::Boolean(_) => DataType::Boolean, ScalarValue::Other => DataType::Other }
    }
}
#[verifier::external_body]
pub struct DataFusionError { _p: u8 }
pub type Result<T> = std::result::Result<T, DataFusionError>;
/// R9: stands for the error built by `assert_eq_or_internal_err!` / `internal_err!`
#[verifier::external_body]
pub fn make_err<T>() -> (r: Result<T>) ensures r is Err { unimplemented!() }
/// ASSUMED contract of Interval::contains_value restricted to what the three-valued connectives use: a boolean value against
/// a well-formed boolean interval (the real function goes through casts and ScalarValue comparison)
impl Interval {
    #[verifier::external_body]
    fn contains_value(&self, value: ScalarValue) -> (r: Result<bool>)
        requires bool_iv(*self), value matches ScalarValue::Boolean(Some(_)),
        ensures r is Ok, r->Ok_0 == has(iv_mask(*self), if value == ScalarValue::Boolean(Some(true)) { 4int } else { 1int }),
    { unimplemented!() }
}
