/// a well-formed boolean interval [lo, hi] with lo <= hi
spec fn bool_iv(i: Interval) -> bool {
    i.lower matches ScalarValue::Boolean(Some(lo)) && i.upper matches ScalarValue::Boolean(Some(hi)) && (lo ==> hi)
}
/// truth values as bits: 1 = FALSE, 2 = UNKNOWN, 4 = TRUE
spec fn iv_mask(i: Interval) -> int {
    (if i.lower == ScalarValue::Boolean(Some(false)) { 1int } else { 0 }) + (if i.upper == ScalarValue::Boolean(Some(true)) { 4int } else { 0 })
}
/// a well-formed set of truth values
spec fn tv(n: NullableInterval) -> bool {
    match n {
        NullableInterval::Null { datatype } => datatype == DataType::Boolean,
        NullableInterval::MaybeNull { values } => bool_iv(values),
        NullableInterval::NotNull { values } => bool_iv(values),
    }
}
spec fn ni_mask(n: NullableInterval) -> int {
    match n {
        NullableInterval::Null { datatype } => 2,
        NullableInterval::MaybeNull { values } => 2 + iv_mask(values),
        NullableInterval::NotNull { values } => iv_mask(values),
    }
}
spec fn has(m: int, v: int) -> bool { (v == 1 && (m == 1 || m == 3 || m == 5 || m == 7)) || (v == 2 && (m == 2 || m == 3 || m == 6 || m == 7)) || (v == 4 && (m >= 4)) }
/// SQL three-valued connectives on single truth values
spec fn and3(a: int, b: int) -> int { if a == 1 || b == 1 { 1 } else if a == 4 && b == 4 { 4 } else { 2 } }
spec fn or3(a: int, b: int) -> int { if a == 4 || b == 4 { 4 } else if a == 1 && b == 1 { 1 } else { 2 } }
spec fn not3(a: int) -> int { if a == 1 { 4 } else if a == 4 { 1 } else { 2 } }
/// value v can be produced by connective f from some a in the set ma and some b in the set mb (the nine cases written out)
spec fn can2(f: spec_fn(int, int) -> int, ma: int, mb: int, v: int) -> bool {
    (has(ma, 1) && has(mb, 1) && f(1, 1) == v) || (has(ma, 1) && has(mb, 2) && f(1, 2) == v) || (has(ma, 1) && has(mb, 4) && f(1, 4) == v)
    || (has(ma, 2) && has(mb, 1) && f(2, 1) == v) || (has(ma, 2) && has(mb, 2) && f(2, 2) == v) || (has(ma, 2) && has(mb, 4) && f(2, 4) == v)
    || (has(ma, 4) && has(mb, 1) && f(4, 1) == v) || (has(ma, 4) && has(mb, 2) && f(4, 2) == v) || (has(ma, 4) && has(mb, 4) && f(4, 4) == v)
}
spec fn can1(ma: int, v: int) -> bool { (has(ma, 1) && not3(1) == v) || (has(ma, 2) && not3(2) == v) || (has(ma, 4) && not3(4) == v) }
/// THE PROPERTY: the result set is exactly the set of values the connective produces from the operand sets
/// (contains every possible value: soundness; contains nothing else: tightness)
spec fn exact2(f: spec_fn(int, int) -> int, ma: int, mb: int, mr: int) -> bool {
    has(mr, 1) == can2(f, ma, mb, 1) && has(mr, 2) == can2(f, ma, mb, 2) && has(mr, 4) == can2(f, ma, mb, 4)
}
spec fn exact1(ma: int, mr: int) -> bool { has(mr, 1) == can1(ma, 1) && has(mr, 2) == can1(ma, 2) && has(mr, 4) == can1(ma, 4) }
/// the named truth-value sets are what their names say
proof fn lemma_named_sets()
    ensures
        bool_iv(Interval::FALSE) && iv_mask(Interval::FALSE) == 1, bool_iv(Interval::TRUE) && iv_mask(Interval::TRUE) == 4,
        bool_iv(Interval::TRUE_OR_FALSE) && iv_mask(Interval::TRUE_OR_FALSE) == 5,
        tv(NullableInterval::FALSE) && ni_mask(NullableInterval::FALSE) == 1, tv(NullableInterval::TRUE) && ni_mask(NullableInterval::TRUE) == 4,
        tv(NullableInterval::UNKNOWN) && ni_mask(NullableInterval::UNKNOWN) == 2,
        tv(NullableInterval::TRUE_OR_FALSE) && ni_mask(NullableInterval::TRUE_OR_FALSE) == 5,
        tv(NullableInterval::TRUE_OR_UNKNOWN) && ni_mask(NullableInterval::TRUE_OR_UNKNOWN) == 6,
        tv(NullableInterval::FALSE_OR_UNKNOWN) && ni_mask(NullableInterval::FALSE_OR_UNKNOWN) == 3,
        tv(NullableInterval::ANY_TRUTH_VALUE) && ni_mask(NullableInterval::ANY_TRUTH_VALUE) == 7,
{}
/// a well-formed set is determined by its mask
proof fn lemma_mask_determines(n: NullableInterval)
    requires tv(n),
    ensures
        ni_mask(n) == 1 <==> n == NullableInterval::FALSE, ni_mask(n) == 4 <==> n == NullableInterval::TRUE,
        1 <= ni_mask(n) <= 7,
{
    lemma_named_sets();
    match n {
        NullableInterval::Null { datatype } => {}
        NullableInterval::MaybeNull { values } => { let lo = values.lower->Boolean_0->Some_0; let hi = values.upper->Boolean_0->Some_0; assert(values.lower == ScalarValue::Boolean(Some(lo)) && values.upper == ScalarValue::Boolean(Some(hi))); }
        NullableInterval::NotNull { values } => { let lo = values.lower->Boolean_0->Some_0; let hi = values.upper->Boolean_0->Some_0; assert(values.lower == ScalarValue::Boolean(Some(lo)) && values.upper == ScalarValue::Boolean(Some(hi))); }
    }
}
/// IS TRUE / IS FALSE / IS UNKNOWN on a single truth value (two-valued result: 4 = TRUE, 1 = FALSE)
spec fn test3(which: int, a: int) -> int { if a == which { 4 } else { 1 } }
spec fn can_test(which: int, ma: int, v: int) -> bool {
    (has(ma, 1) && test3(which, 1) == v) || (has(ma, 2) && test3(which, 2) == v) || (has(ma, 4) && test3(which, 4) == v)
}
spec fn exact_test(which: int, ma: int, mr: int) -> bool {
    has(mr, 1) == can_test(which, ma, 1) && has(mr, 2) == can_test(which, ma, 2) && has(mr, 4) == can_test(which, ma, 4)
}
/// a well-formed Int64 interval: endpoints Int64, NULL = unbounded, lower <= upper
spec fn num_iv(i: Interval) -> bool {
    i.lower is Int64 && i.upper is Int64
    && ((int_of(i.lower) is Some && int_of(i.upper) is Some) ==> int_of(i.lower)->Some_0 <= int_of(i.upper)->Some_0)
}
spec fn contains(i: Interval, x: int) -> bool {
    (int_of(i.lower) is Some ==> int_of(i.lower)->Some_0 <= x) && (int_of(i.upper) is Some ==> x <= int_of(i.upper)->Some_0)
}
/// truth value (4 = TRUE, 1 = FALSE) of a comparison outcome
spec fn tvb(b: bool) -> int { if b { 4 } else { 1 } }
/// both values lie in their intervals
spec fn pair_in(x: Interval, y: Interval, a: int, b: int) -> bool { contains(x, a) && contains(y, b) }
/// the pair (a, b) satisfies the constraint `a > b` (strict) / `a >= b`
spec fn sat_gt(a: int, b: int, strict: bool) -> bool { if strict { a > b } else { a >= b } }
spec fn in_i64(x: int) -> bool { i64::MIN <= x <= i64::MAX }
