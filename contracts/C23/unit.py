"""C23 — interval arithmetic soundness: the float successor/predecessor used for strict bounds."""
LEVEL = "proof"

M = "common/rounding.rs"
KANI = [dict(package="datafusion-common", module=M, timeout=900, harnesses=[
    dict(name="c23_next_up_f64", complete=True, what="next_up::<f64> for all 2^64 bit patterns x and all 2^64 candidates z: fixed points NaN/+inf; result >= x; no z strictly between; strict except -0.0; zero cases"),
    dict(name="c23_next_down_f64", complete=True, what="next_down::<f64>, mirrored contract"),
    dict(name="c23_round_trip_f64", complete=True, what="next_down(next_up(x)) == x and next_up(next_down(x)) == x for every finite f64"),
    dict(name="c23_next_up_f32", complete=True, what="next_up::<f32>, all bit patterns"),
    dict(name="c23_next_down_f32", complete=True, what="next_down::<f32>, all bit patterns"),
    dict(name="c23_round_trip_f32", complete=True, what="inverse pair on f32"),
])]
# ------------------------------------------------------------------------------------------
# three-valued logic on truth-value sets: Interval::{and, or, not} (boolean intervals) and
# NullableInterval::{values, and, or, not}; kani-compiler 0.68 panics on the ScalarValue code these reach (attempts/),
# so the functions are proved in Verus over a two-variant type model of DataType / ScalarValue
# ------------------------------------------------------------------------------------------
FI = "datafusion/expr-common/src/interval_arithmetic.rs"
DER = "#[derive(PartialEq, Eq, Structural, Clone, Copy)]\n"
II = "impl Interval"
NI = "impl NullableInterval"
def _const(imp, name):
    return dict(file=FI, path=[imp, "const %s" % name], wrap=imp, suffix=";")
_GEN = [dict(rule="R3", regex=r"<T: Borrow<Self>>", replace="", count=1),
        dict(rule="R3", regex=r"(other|rhs): T\)", replace=r"\1: &Self)", count=1),
        dict(rule="R3", regex=r"(other|rhs)\.borrow\(\)", replace=r"\1", count="any"),
        # ref patterns are outside the Verus subset; the model of ScalarValue is Copy, so the tuple of references is matched by value
        dict(rule="R3", regex=r"match \(&self\.lower, &self\.upper, &rhs\.lower, &rhs\.upper\)", replace="match (self.lower, self.upper, rhs.lower, rhs.upper)", count="any"),
        dict(rule="R3", regex=r"&ScalarValue::Boolean\(", replace="ScalarValue::Boolean(", count="any")]
_NOTERR = [dict(rule="R9", regex=r"assert_eq_or_internal_err!\(\s*self\.data_type\(\),\s*DataType::Boolean,\s*\"[^\"]*\"\s*\);",
                replace="if self.data_type() != DataType::Boolean { return make_err(); }", count=1)]
VERUS = [dict(
    name="three_valued_logic",
    uses="use vstd::prelude::*;\n",
    prelude="prelude_logic.rs", proofs="proofs_logic.rs", witness="witness_logic.rs", rlimit=60, min_verified=8, twins=[], std_specs=False,
    items=[
        dict(file=FI, path=["struct Interval"], prefix=DER),
        dict(file=FI, path=["enum NullableInterval"], prefix=DER),
        _const(II, "FALSE"), _const(II, "TRUE_OR_FALSE"), _const(II, "TRUE"),
        dict(file=FI, path=[II, "fn data_type"], wrap=II, ret="r",
             edits=[dict(rule="R5", regex=r"debug_assert!\((?:[^()]|\([^()]*\))*\);", replace="", count=1)],
             contract="    ensures r == self.lower.spec_data_type(),"),
        dict(file=FI, path=[II, "fn gt"], wrap=II, ret="r",
             edits=_GEN + [dict(rule="R9", regex=r"assert_eq_or_internal_err!\(\s*lhs_type,\s*rhs_type,(?:[^()]|\([^()]*\))*\);", replace="if lhs_type != rhs_type { return make_err(); }", count=1),
                           dict(rule="R13", regex=r"self\.upper <= rhs\.lower", replace="sv_le(self.upper, rhs.lower)", count="any"),
                           dict(rule="R13", regex=r"\(self\.lower > rhs\.upper\)", replace="sv_lt(rhs.upper, self.lower)", count="any"),
                           dict(rule="R13", regex=r"self\.lower >= rhs\.upper", replace="sv_le(rhs.upper, self.lower)", count="any"),
                           dict(rule="R13", regex=r"\(self\.upper < rhs\.lower\)", replace="sv_lt(self.upper, rhs.lower)", count="any")],
             contract="""    requires num_iv(*self), num_iv(*other),
    ensures r is Ok, bool_iv(r->Ok_0),
        // soundness: whatever values the two intervals stand for, the truth value of `a > b` is in the result
        forall|a: int, b: int| #[trigger] pair_in(*self, *other, a, b) ==> has(iv_mask(r->Ok_0), tvb(a > b)),""",
             proofs=[dict(at="body_start", text="""
        proof { lemma_named_sets(); }""")]),
        dict(file=FI, path=[II, "fn gt_eq"], wrap=II, ret="r",
             edits=_GEN + [dict(rule="R9", regex=r"assert_eq_or_internal_err!\(\s*lhs_type,\s*rhs_type,(?:[^()]|\([^()]*\))*\);", replace="if lhs_type != rhs_type { return make_err(); }", count=1),
                           dict(rule="R13", regex=r"self\.upper <= rhs\.lower", replace="sv_le(self.upper, rhs.lower)", count="any"),
                           dict(rule="R13", regex=r"\(self\.lower > rhs\.upper\)", replace="sv_lt(rhs.upper, self.lower)", count="any"),
                           dict(rule="R13", regex=r"self\.lower >= rhs\.upper", replace="sv_le(rhs.upper, self.lower)", count="any"),
                           dict(rule="R13", regex=r"\(self\.upper < rhs\.lower\)", replace="sv_lt(self.upper, rhs.lower)", count="any")],
             contract="""    requires num_iv(*self), num_iv(*other),
    ensures r is Ok, bool_iv(r->Ok_0),
        // soundness: whatever values the two intervals stand for, the truth value of `a >= b` is in the result
        forall|a: int, b: int| #[trigger] pair_in(*self, *other, a, b) ==> has(iv_mask(r->Ok_0), tvb(a >= b)),""",
             proofs=[dict(at="body_start", text="""
        proof { lemma_named_sets(); }""")]),
        dict(file=FI, path=[II, "fn lt"], wrap=II, ret="r", edits=_GEN,
             contract="""    requires num_iv(*self), num_iv(*other),
    ensures r is Ok, bool_iv(r->Ok_0),
        forall|a: int, b: int| #[trigger] pair_in(*other, *self, b, a) ==> has(iv_mask(r->Ok_0), tvb(a < b)),   // a in self, b in other"""),
        dict(file=FI, path=[II, "fn lt_eq"], wrap=II, ret="r", edits=_GEN,
             contract="""    requires num_iv(*self), num_iv(*other),
    ensures r is Ok, bool_iv(r->Ok_0),
        forall|a: int, b: int| #[trigger] pair_in(*other, *self, b, a) ==> has(iv_mask(r->Ok_0), tvb(a <= b)),   // a in self, b in other"""),
        dict(file=FI, path=["fn max_of_bounds"], ret="r",
             edits=[dict(rule="R13", find="first >= second", replace="sv_le(*second, *first)"), dict(rule="R3", regex=r"\.clone\(\)", replace="", count=2),
                    dict(rule="R3", find="first\n    } else {\n        second\n", replace="*first\n    } else {\n        *second\n")],
             contract="""    requires first is Int64, second is Int64,
    ensures r is Int64, (int_of(*first) is None && int_of(*second) is None) ==> int_of(r) is None,
        // NULL means -inf here: the greater lower bound
        int_of(*first) is Some && int_of(*second) is Some ==> int_of(r) == Some(if int_of(*first)->Some_0 >= int_of(*second)->Some_0 { int_of(*first)->Some_0 } else { int_of(*second)->Some_0 }),
        int_of(*first) is Some && int_of(*second) is None ==> r == *first, int_of(*first) is None && int_of(*second) is Some ==> r == *second,"""),
        dict(file=FI, path=["fn min_of_bounds"], ret="r",
             edits=[dict(rule="R13", find="first <= second", replace="sv_le(*first, *second)"), dict(rule="R3", regex=r"\.clone\(\)", replace="", count=2),
                    dict(rule="R3", find="first\n    } else {\n        second\n", replace="*first\n    } else {\n        *second\n")],
             contract="""    requires first is Int64, second is Int64,
    ensures r is Int64, (int_of(*first) is None && int_of(*second) is None) ==> int_of(r) is None,
        int_of(*first) is Some && int_of(*second) is Some ==> int_of(r) == Some(if int_of(*first)->Some_0 <= int_of(*second)->Some_0 { int_of(*first)->Some_0 } else { int_of(*second)->Some_0 }),
        int_of(*first) is Some && int_of(*second) is None ==> r == *first, int_of(*first) is None && int_of(*second) is Some ==> r == *second,"""),
        dict(file=FI, path=[II, "fn intersect"], wrap=II, ret="r", edits=_GEN + [dict(rule="R13", regex=r"lhs\.lower > rhs\.upper", replace="sv_lt(rhs.upper, lhs.lower)", count="any"),
                           dict(rule="R13", regex=r"lhs\.upper < rhs\.lower", replace="sv_lt(lhs.upper, rhs.lower)", count="any"),
                           dict(rule="R13", regex=r"lhs\.lower <= rhs\.lower", replace="sv_le(lhs.lower, rhs.lower)", count="any"),
                           dict(rule="R13", regex=r"lhs\.upper >= rhs\.upper", replace="sv_le(rhs.upper, lhs.upper)", count="any"),
                           dict(rule="R13", regex=r"(lhs|rhs)_owned\.as_ref\(\)\.unwrap_or\((self|rhs)\)", replace=r"owned_or(&\1_owned, \2)", count=2),
                           dict(rule="R3", regex=r"\.clone\(\)", replace="", count="any"),
                           dict(rule="R5", regex=r"debug_assert!\((?:[^()]|\((?:[^()]|\([^()]*\))*\))*\);", replace="", count=1)],
             contract="""    requires num_iv(*self), num_iv(*other),
    ensures r is Ok,
        // exact: a value lies in the intersection iff it lies in both intervals; None iff no value does
        r->Ok_0 is None ==> forall|x: int| !(#[trigger] contains(*self, x) && contains(*other, x)),
        r->Ok_0 is Some ==> num_iv(r->Ok_0->Some_0) && forall|x: int| #[trigger] contains(r->Ok_0->Some_0, x) <==> (contains(*self, x) && contains(*other, x)),"""),
        dict(file=FI, path=[II, "fn union"], wrap=II, ret="r", edits=_GEN + [dict(rule="R13", regex=r"lhs\.lower > rhs\.upper", replace="sv_lt(rhs.upper, lhs.lower)", count="any"),
                           dict(rule="R13", regex=r"lhs\.upper < rhs\.lower", replace="sv_lt(lhs.upper, rhs.lower)", count="any"),
                           dict(rule="R13", regex=r"lhs\.lower <= rhs\.lower", replace="sv_le(lhs.lower, rhs.lower)", count="any"),
                           dict(rule="R13", regex=r"lhs\.upper >= rhs\.upper", replace="sv_le(rhs.upper, lhs.upper)", count="any"),
                           dict(rule="R13", regex=r"(lhs|rhs)_owned\.as_ref\(\)\.unwrap_or\((self|rhs)\)", replace=r"owned_or(&\1_owned, \2)", count=2),
                           dict(rule="R3", regex=r"\.clone\(\)", replace="", count="any"),
                           dict(rule="R5", regex=r"debug_assert!\((?:[^()]|\((?:[^()]|\([^()]*\))*\))*\);", replace="", count=1)],
             contract="""    requires num_iv(*self), num_iv(*other),
    ensures r is Ok, num_iv(r->Ok_0),
        // sound hull: nothing of either interval is lost; and not wider than needed (each endpoint is an endpoint of an operand)
        forall|x: int| (#[trigger] contains(*self, x) || contains(*other, x)) ==> contains(r->Ok_0, x),
        (r->Ok_0.lower == self.lower || r->Ok_0.lower == other.lower) && (r->Ok_0.upper == self.upper || r->Ok_0.upper == other.upper),"""),
        dict(file=FI, path=["fn satisfy_greater"], ret="r",
             edits=[dict(rule="R9", regex=r"assert_eq_or_internal_err!\(\s*lhs_type\.clone\(\),\s*rhs_type\.clone\(\),(?:[^()]|\([^()]*\))*\);", replace="if lhs_type != rhs_type { return make_err(); }", count=1),
                    dict(rule="R3", regex=r"\.clone\(\)", replace="", count="any"),
                    dict(rule="R13", regex=r"left\.upper <= right\.lower", replace="sv_le(left.upper, right.lower)", count="any"),
                    dict(rule="R13", regex=r"left\.lower <= right\.lower", replace="sv_le(left.lower, right.lower)", count="any"),
                    dict(rule="R13", regex=r"left\.upper <= right\.upper", replace="sv_le(left.upper, right.upper)", count="any"),
                    dict(rule="R13", regex=r"Interval::new\(", replace="interval_new(", count="any")],
             contract="""    requires num_iv(*left), num_iv(*right),
    ensures r is Ok,
        // constraint propagation never removes a value that belongs to a satisfying assignment:
        // infeasible only if no pair of values satisfies the constraint ...
        r->Ok_0 is None ==> forall|a: int, b: int| #[trigger] pair_in(*left, *right, a, b) && in_i64(a) && in_i64(b) ==> !sat_gt(a, b, strict),
        // ... and otherwise every satisfying pair survives in the shrunk intervals, which only shrink
        r->Ok_0 is Some ==> forall|a: int, b: int| #[trigger] pair_in(*left, *right, a, b) && in_i64(a) && in_i64(b) && sat_gt(a, b, strict)
                                ==> contains(r->Ok_0->Some_0.0, a) && contains(r->Ok_0->Some_0.1, b),"""),
        dict(file=FI, path=[II, "fn contains"], wrap=II, ret="r",
             edits=_GEN + [dict(rule="R13", regex=r"(lhs|rhs)_owned\.as_ref\(\)\.unwrap_or\((self|rhs)\)", replace=r"owned_or(&\1_owned, \2)", count=2)],
             contract="""    requires num_iv(*self), num_iv(*other),
    ensures r is Ok, bool_iv(r->Ok_0),
        // certainly contained only if every value of `other` lies in `self`; certainly not only if they share no value
        iv_mask(r->Ok_0) == 4 ==> forall|x: int| #[trigger] contains(*other, x) ==> contains(*self, x),
        iv_mask(r->Ok_0) == 1 ==> forall|x: int| !(#[trigger] contains(*self, x) && contains(*other, x)),""",
             proofs=[dict(at="body_start", text="""
        proof { lemma_named_sets(); }""")]),
        dict(file=FI, path=[II, "fn and"], wrap=II, ret="r", edits=_GEN,
             contract="""    requires bool_iv(*self), bool_iv(*other),
    ensures r is Ok, bool_iv(r->Ok_0), exact2(|a: int, b: int| and3(a, b), iv_mask(*self), iv_mask(*other), iv_mask(r->Ok_0)),"""),
        dict(file=FI, path=[II, "fn or"], wrap=II, ret="r", edits=_GEN,
             contract="""    requires bool_iv(*self), bool_iv(*other),
    ensures r is Ok, bool_iv(r->Ok_0), exact2(|a: int, b: int| or3(a, b), iv_mask(*self), iv_mask(*other), iv_mask(r->Ok_0)),"""),
        dict(file=FI, path=[II, "fn not"], wrap=II, ret="r", edits=_NOTERR,
             contract="""    requires bool_iv(*self),
    ensures r is Ok, bool_iv(r->Ok_0), exact1(iv_mask(*self), iv_mask(r->Ok_0)),""",
             proofs=[dict(at="body_start", text="""
        proof {
            // the interval is one of [f,f], [f,t], [t,t]
            let lo = self.lower->Boolean_0->Some_0; let hi = self.upper->Boolean_0->Some_0;
            assert(self.lower == ScalarValue::Boolean(Some(lo)) && self.upper == ScalarValue::Boolean(Some(hi)));
            assert(Self::TRUE.lower == ScalarValue::Boolean(Some(true)) && Self::TRUE.upper == ScalarValue::Boolean(Some(true)));
            assert(Self::FALSE.lower == ScalarValue::Boolean(Some(false)) && Self::FALSE.upper == ScalarValue::Boolean(Some(false)));
            assert((lo && hi) ==> *self == Self::TRUE);
            assert((!lo && !hi) ==> *self == Self::FALSE);
        }""")]),
    ] + [_const(NI, n) for n in ("FALSE", "TRUE", "UNKNOWN", "TRUE_OR_FALSE", "TRUE_OR_UNKNOWN", "FALSE_OR_UNKNOWN", "ANY_TRUTH_VALUE")] + [
        dict(file=FI, path=[NI, "fn values"], wrap=NI, ret="r",
             contract="""    ensures r is None <==> *self is Null, r is Some ==> (*self matches NullableInterval::MaybeNull { values } && *r->Some_0 == values)
                                                         || (*self matches NullableInterval::NotNull { values } && *r->Some_0 == values),"""),
        dict(file=FI, path=[NI, "fn is_true_false_unknown"], wrap=NI, ret="r",
             edits=[dict(rule="R3", find="Result<(bool, bool, bool), DataFusionError>", replace="Result<(bool, bool, bool)>")],
             contract="""    requires tv(*self),
    ensures r is Ok, r->Ok_0.0 == has(ni_mask(*self), 4), r->Ok_0.1 == has(ni_mask(*self), 1), r->Ok_0.2 == has(ni_mask(*self), 2),""",
             proofs=[dict(at="body_start", text="""
        proof { lemma_mask_determines(*self); }""")]),
        dict(file=FI, path=[NI, "fn is_true"], wrap=NI, ret="r",
             contract="""    requires tv(*self),
    ensures r is Ok, tv(r->Ok_0), exact_test(4, ni_mask(*self), ni_mask(r->Ok_0)),""",
             proofs=[dict(at="body_start", text="""
        proof { lemma_named_sets(); lemma_mask_determines(*self); }""")]),
        dict(file=FI, path=[NI, "fn is_false"], wrap=NI, ret="r",
             contract="""    requires tv(*self),
    ensures r is Ok, tv(r->Ok_0), exact_test(1, ni_mask(*self), ni_mask(r->Ok_0)),""",
             proofs=[dict(at="body_start", text="""
        proof { lemma_named_sets(); lemma_mask_determines(*self); }""")]),
        dict(file=FI, path=[NI, "fn is_unknown"], wrap=NI, ret="r",
             contract="""    requires tv(*self),
    ensures r is Ok, tv(r->Ok_0), exact_test(2, ni_mask(*self), ni_mask(r->Ok_0)),""",
             proofs=[dict(at="body_start", text="""
        proof { lemma_named_sets(); lemma_mask_determines(*self); }""")]),
        dict(file=FI, path=[NI, "fn not"], wrap=NI, ret="r",
             edits=[dict(rule="R9", regex=r"assert_eq_or_internal_err!\(\s*datatype,\s*&DataType::Boolean,\s*\"[^\"]*\"\s*\);",
                         replace="if *datatype != DataType::Boolean { return make_err(); }", count=1)],
             contract="""    requires tv(*self),
    ensures r is Ok, tv(r->Ok_0), exact1(ni_mask(*self), ni_mask(r->Ok_0)),"""),
        dict(file=FI, path=[NI, "fn and"], wrap=NI, ret="r", edits=_GEN,
             contract="""    requires tv(*self), tv(*rhs),
    ensures r is Ok, tv(r->Ok_0), exact2(|a: int, b: int| and3(a, b), ni_mask(*self), ni_mask(*rhs), ni_mask(r->Ok_0)),""",
             proofs=[dict(at="body_start", text="""
        proof { lemma_named_sets(); lemma_mask_determines(*self); lemma_mask_determines(*rhs); }""")]),
        dict(file=FI, path=[NI, "fn or"], wrap=NI, ret="r", edits=_GEN,
             contract="""    requires tv(*self), tv(*rhs),
    ensures r is Ok, tv(r->Ok_0), exact2(|a: int, b: int| or3(a, b), ni_mask(*self), ni_mask(*rhs), ni_mask(r->Ok_0)),""",
             proofs=[dict(at="body_start", text="""
        proof { lemma_named_sets(); lemma_mask_determines(*self); lemma_mask_determines(*rhs); }""")]),
    ],
    mutants=[
        dict(name="bool_and_upper_is_or", item="and", find="let upper = self_upper && other_upper;", replace="let upper = self_upper || other_upper;"),
        dict(name="bool_or_lower_is_and", item="or", find="let lower = self_lower || other_lower;", replace="let lower = self_lower && other_lower;"),
        dict(name="bool_not_of_true_is_true", item="not", find="Ok(Self::FALSE)", replace="Ok(Self::TRUE)"),
        dict(name="nullable_and_forgets_false", item="and", find="Ok(Self::FALSE_OR_UNKNOWN)", replace="Ok(Self::UNKNOWN)"),
        dict(name="nullable_and_forgets_unknown", item="and", find="_ => Ok(Self::MaybeNull { values }),", replace="_ => Ok(Self::NotNull { values }),"),
        dict(name="nullable_or_tests_false", item="or", find="contains_value(ScalarValue::Boolean(Some(true)))", replace="contains_value(ScalarValue::Boolean(Some(false)))"),
        dict(name="nullable_and_shortcut_needs_both", item="and", find="if self == &Self::FALSE || rhs == &Self::FALSE {", replace="if self == &Self::FALSE && rhs == &Self::FALSE {"),
        dict(name="nullable_not_of_unknown_is_true", item="not", find="Ok(Self::UNKNOWN)", replace="Ok(Self::TRUE)"),
        dict(name="gt_certainly_false_on_strict_less_only", item="gt", find="sv_le(self.upper, rhs.lower)", replace="sv_le(self.upper, self.lower)"),
        dict(name="gt_true_and_false_swapped", item="gt", find="Ok(Self::TRUE)", replace="Ok(Self::FALSE)"),
        dict(name="gt_eq_true_on_strict_greater_missing_equal", item="gt_eq", find="Ok(Self::FALSE)", replace="Ok(Self::TRUE)"),
        dict(name="lt_not_mirrored", item="lt", find="other.gt(self)", replace="self.gt(other)"),
        dict(name="gt_ignores_unbounded_upper", item="gt", find="if !(self.upper.is_null() || rhs.lower.is_null()) &&", replace="if !(rhs.lower.is_null()) &&"),
        dict(name="intersect_lower_is_min", item="intersect", find="let lower = max_of_bounds(", replace="let lower = min_of_bounds("),
        dict(name="intersect_touching_reported_empty", item="intersect", find="sv_lt(rhs.upper, lhs.lower)", replace="sv_le(rhs.upper, lhs.lower)"),
        dict(name="union_takes_larger_lower", item="union", find="sv_le(lhs.lower, rhs.lower)", replace="sv_le(rhs.lower, lhs.lower)"),
        dict(name="max_of_bounds_prefers_null", item="max_of_bounds", find="if !first.is_null() && (second.is_null() ||", replace="if first.is_null() || (second.is_null() ||"),
        dict(name="propagate_strictness_inverted_on_left_lower", item="satisfy_greater", find="if strict {\n            next_value(right.lower)", replace="if !strict {\n            next_value(right.lower)"),
        dict(name="propagate_right_upper_two_steps", item="satisfy_greater", find="prev_value(left.upper)", replace="prev_value(prev_value(left.upper))"),
        dict(name="propagate_touching_is_infeasible_when_non_strict", item="satisfy_greater", find="if !strict && left.upper == right.lower {", replace="if strict && left.upper == right.lower {"),
        dict(name="propagate_new_left_lower_from_right_upper", item="satisfy_greater", find="        } else {\n            right.lower\n        }", replace="        } else {\n            right.upper\n        }"),
        dict(name="contains_true_on_any_overlap", item="contains", find="Ok(Self::TRUE_OR_FALSE)", replace="Ok(Self::TRUE)"),
        dict(name="is_true_ignores_unknown", item="is_true", find="(true, false, false) => Ok(Self::TRUE),", replace="(true, false, _) => Ok(Self::TRUE),"),
        dict(name="is_unknown_inverted", item="is_unknown", find="(_, _, false) => Ok(Self::FALSE),", replace="(_, _, false) => Ok(Self::TRUE),"),
        dict(name="maybe_null_reported_not_null", item="is_true_false_unknown", find="?,\n                true,\n            ),", replace="?,\n                false,\n            ),"),
    ],
)]
TRUSTED = ["Kani 0.68 / CBMC 6.11 (IEEE-754 comparison semantics of CBMC's float theory)",
           "three_valued_logic: Verus+Z3; three-variant type model of DataType / ScalarValue (Boolean, Int64, Other), ScalarValue PartialOrd on Int64 values (Option ordering) behind assumed contracts sv_le / sv_lt (R13), next_value / prev_value / Interval::new for Int64 behind assumed contracts read off the macro-generated code, re-attached derives (R16), Borrow<Self> parameters taken as &Self and reference patterns matched by value on the Copy model (R3), ASSUMED contract of Interval::contains_value for boolean values (prelude_logic.rs)"]
ASSUMPTIONS = ["only the bit-level successor/predecessor is within reach; interval add/sub/mul/div, cp_solver and everything through ScalarValue/Arrow kernels and the fesetround FFI are not verified"]
NOT_COVERED = ["numeric Interval::{add,sub,mul,div,equal,...}, intervals of other data types than Int64 (the code is type-generic over ScalarValue; floats have NaN/rounding), operands of different data types (casts)", "cp_solver propagation", "alter_fp_rounding_mode (FFI fesetround)", "integer increment/decrement through ScalarValue"]
EXPLANATION = "A successor that skipped a representable value would let a strict bound x > c remove a feasible value during constraint propagation; the harnesses prove, for every bit pattern, that no value is skipped."
