"""C23 — interval arithmetic soundness: the float successor/predecessor used for strict bounds."""
LEVEL = "proof"
VERUS = []
M = "common/rounding.rs"
KANI = [dict(package="datafusion-common", module=M, timeout=900, harnesses=[
    dict(name="c23_next_up_f64", complete=True, what="next_up::<f64> for all 2^64 bit patterns x and all 2^64 candidates z: fixed points NaN/+inf; result >= x; no z strictly between; strict except -0.0; zero cases"),
    dict(name="c23_next_down_f64", complete=True, what="next_down::<f64>, mirrored contract"),
    dict(name="c23_round_trip_f64", complete=True, what="next_down(next_up(x)) == x and next_up(next_down(x)) == x for every finite f64"),
    dict(name="c23_next_up_f32", complete=True, what="next_up::<f32>, all bit patterns"),
    dict(name="c23_next_down_f32", complete=True, what="next_down::<f32>, all bit patterns"),
    dict(name="c23_round_trip_f32", complete=True, what="inverse pair on f32"),
])]
TRUSTED = ["Kani 0.68 / CBMC 6.11 (IEEE-754 comparison semantics of CBMC's float theory)"]
ASSUMPTIONS = ["only the bit-level successor/predecessor is within reach; interval add/sub/mul/div, cp_solver and everything through ScalarValue/Arrow kernels and the fesetround FFI are not verified"]
NOT_COVERED = ["Interval::{add,sub,mul,div,...}", "cp_solver propagation", "alter_fp_rounding_mode (FFI fesetround)", "integer increment/decrement through ScalarValue"]
EXPLANATION = "A successor that skipped a representable value would let a strict bound x > c remove a feasible value during constraint propagation; the harnesses prove, for every bit pattern, that no value is skipped."
