fn witness_and() {
    proof { lemma_named_sets(); }
    let r = Interval::TRUE.and(&Interval::TRUE_OR_FALSE);
    //@MUSTFAIL
}
fn witness_nullable_and() {
    proof { lemma_named_sets(); }
    let r = NullableInterval::TRUE_OR_UNKNOWN.and(&NullableInterval::FALSE_OR_UNKNOWN);
    //@MUSTFAIL
}
fn witness_nullable_not() {
    proof { lemma_named_sets(); }
    let r = NullableInterval::ANY_TRUTH_VALUE.not();
    //@MUSTFAIL
}
fn witness_gt(x: &Interval, y: &Interval) requires num_iv(*x), num_iv(*y) {
    let r = x.gt(y);
    //@MUSTFAIL
}
fn witness_intersect(x: &Interval, y: &Interval) requires num_iv(*x), num_iv(*y) {
    let r = x.intersect(y);
    //@MUSTFAIL
}
fn witness_union(x: &Interval, y: &Interval) requires num_iv(*x), num_iv(*y) {
    let r = x.union(y);
    //@MUSTFAIL
}
fn witness_propagate(x: &Interval, y: &Interval, strict: bool) requires num_iv(*x), num_iv(*y) {
    let r = satisfy_greater(x, y, strict);
    //@MUSTFAIL
}
