"""C21 — disk-usage accounting of spill files stays exact (datafusion/execution/src/disk_manager.rs)."""
LEVEL = "proof"
VERUS = []
M = "execution/disk_manager.rs"
KANI = [dict(package="datafusion-execution", module=M, timeout=900, harnesses=[
    dict(name="c21_write_accounting", complete=True,
         stubs_required=["write", "format"],
         what="FileSpillWriter::write over the full u64 domain of (limit, global usage, file usage) with the underlying File::write failing nondeterministically: Ok => both counters += len and <= limit; Err (quota or failed write) => both unchanged"),
    dict(name="c21_set_limit", complete=True,
         what="DiskManager::set_max_temp_directory_size: stores the new limit, never touches usage, disabled manager accepts only 0"),
])]
TRUSTED = ["Kani 0.68 / CBMC 6.11", "atomics executed sequentially (no interleavings)",
           "stub <File as Write>::write := arbitrary Ok(len)/Err (the fault model of the property)",
           "stubs for error construction/formatting: From<DataFusionError> for io::Error, human_readable_size, fmt::format (error content opaque)"]
ASSUMPTIONS = ["global usage <= 2^63 (no wrap of the u64 counter)", "a file's usage is part of the global usage before the call (ghost invariant G)",
               "buffer lengths 0..=2 (the function depends on buf only through buf.len(), which is then symbolic over {0,1,2}); write_all is std's loop over the stubbed write, unwound 3 times with unwinding assertion",
               "sequential semantics only"]
NOT_COVERED = ["round trip of spilled bytes (Arrow IPC, codecs)", "create_tmp_file / RefCountedTempFile::drop (tempfile syscalls)", "custom TempFileFactory back ends"]
EXPLANATION = "Per-operation accounting contract of the spill writer proved on the real MIR with I/O stubbed nondeterministically."
