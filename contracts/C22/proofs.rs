/// one container and one predicate literal: statistics of the column in that container
pub struct Env { pub min: int, pub max: int, pub nulls: int, pub rows: int, pub lit: int }
/// numeric value of a leaf of the rewritten predicate in the container
spec fn num(e: PExpr, v: Env) -> int {
    match e { PExpr::Min => v.min, PExpr::Max => v.max, PExpr::NullCount => v.nulls, PExpr::RowCount => v.rows, PExpr::Lit => v.lit, PExpr::LitU64(c) => c as int, _ => 0 }
}
spec fn cmp(op: Operator, a: int, b: int) -> bool {
    match op { Operator::Eq => a == b, Operator::NotEq => a != b, Operator::Lt => a < b, Operator::LtEq => a <= b, Operator::Gt => a > b, Operator::GtEq => a >= b, _ => false }
}
/// truth value of the rewritten predicate in the container (two-valued: the statistics of the claim are known)
spec fn tru(e: PExpr, v: Env) -> bool
    decreases e
{
    match e {
        PExpr::Binary(l, op, r) => match op {
            Operator::And => tru(*l, v) && tru(*r, v),
            Operator::Or => tru(*l, v) || tru(*r, v),
            _ => cmp(op, num(*l, v), num(*r, v)),
        },
        _ => false,
    }
}
/// the statistics are valid for a container that holds a non-null row with value x
spec fn valid_stats(v: Env, x: int) -> bool { v.min <= x <= v.max && 0 <= v.nulls < v.rows }
/// THE PROPERTY for one comparison: if some row of the container satisfies `column op literal`, the rewritten predicate is
/// true for the container, i.e. the container is kept
spec fn keeps_matching_containers(op: Operator, e: PExpr) -> bool {
    forall|v: Env, x: int| #[trigger] valid_stats(v, x) && cmp(op, x, v.lit) ==> tru(e, v)
}
spec fn comparison(op: Operator) -> bool { op == Operator::Eq || op == Operator::NotEq || op == Operator::Lt || op == Operator::LtEq || op == Operator::Gt || op == Operator::GtEq }
