fn witness_gt() {
    let mut b = PruningExpressionBuilder { op: Operator::Gt };
    let r = build_statistics_expr(&mut b);
    //@MUSTFAIL
}
