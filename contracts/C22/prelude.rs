// TYPE MODEL of the expression layer the rewrite builds on.  `Arc<dyn PhysicalExpr>` values are modelled by the algebraic
// datatype PExpr (statistics columns, the literal of the predicate, binary expressions); the rewrite's Rust text is kept, only
// the constructors are mapped onto the model (rewrites R3 / R13 in the unit).
#[derive(PartialEq, Eq, Structural, Clone, Copy)]
pub enum Operator { Eq, NotEq, Lt, LtEq, Gt, GtEq, And, Or, IsDistinctFrom, IsNotDistinctFrom, LikeMatch, NotLikeMatch, Other }
pub enum PExpr {
    /// `<col>_min`, `<col>_max`, `<col>_null_count`, `<col>_row_count` of the container
    Min, Max, NullCount, RowCount,
    /// the literal the column is compared with
    Lit,
    LitU64(u64),
    Binary(Box<PExpr>, Operator, Box<PExpr>),
    /// anything built by the parts of the rewrite that are not under contract
    Opaque,
}
pub struct DataFusionError {}
pub type Result<T> = core::result::Result<T, DataFusionError>;
/// R9: stands for `plan_err!(..)` / `plan_datafusion_err!(..)`
#[verifier::external_body]
pub fn make_err<T>() -> (r: Result<T>) ensures r is Err { unimplemented!() }
/// R13: stands for `Arc::new(phys_expr::BinaryExpr::new(left, op, right))`
pub fn new_binary(left: PExpr, op: Operator, right: PExpr) -> (r: PExpr) ensures r == PExpr::Binary(Box::new(left), op, Box::new(right)) {
    PExpr::Binary(Box::new(left), op, Box::new(right))
}
/// R13: stands for `Arc::new(phys_expr::Literal::new(ScalarValue::UInt64(Some(c))))`
pub fn lit_u64(c: u64) -> (r: PExpr) ensures r == PExpr::LitU64(c) { PExpr::LitU64(c) }

/// ASSUMED view of PruningExpressionBuilder: which operator the (normalised) predicate `column op literal` has, and that
/// its accessors hand out the statistics columns / the literal of that predicate
pub struct PruningExpressionBuilder { pub op: Operator }
impl PruningExpressionBuilder {
    pub fn op(&self) -> (r: Operator) ensures r == self.op { self.op }
    #[verifier::external_body]
    pub fn scalar_expr(&self) -> (r: PExpr) ensures r == PExpr::Lit { unimplemented!() }
    #[verifier::external_body]
    pub fn min_column_expr(&mut self) -> (r: Result<PExpr>) ensures final(self).op == old(self).op, r is Ok ==> r->Ok_0 == PExpr::Min { unimplemented!() }
    #[verifier::external_body]
    pub fn max_column_expr(&mut self) -> (r: Result<PExpr>) ensures final(self).op == old(self).op, r is Ok ==> r->Ok_0 == PExpr::Max { unimplemented!() }
    #[verifier::external_body]
    pub fn null_count_column_expr(&mut self) -> (r: Result<PExpr>) ensures final(self).op == old(self).op, r is Ok ==> r->Ok_0 == PExpr::NullCount { unimplemented!() }
    #[verifier::external_body]
    pub fn row_count_column_expr(&mut self) -> (r: Result<PExpr>) ensures final(self).op == old(self).op, r is Ok ==> r->Ok_0 == PExpr::RowCount { unimplemented!() }
}
/// the arms of the rewrite that are not under contract here (IS [NOT] DISTINCT FROM, [NOT] LIKE): nothing is assumed
#[verifier::external_body]
pub fn build_is_distinct_from(b: &mut PruningExpressionBuilder) -> (r: Result<PExpr>) ensures final(b).op == old(b).op { unimplemented!() }
#[verifier::external_body]
pub fn build_is_not_distinct_from(b: &mut PruningExpressionBuilder) -> (r: Result<PExpr>) ensures final(b).op == old(b).op { unimplemented!() }
#[verifier::external_body]
pub fn build_not_like_match(b: &mut PruningExpressionBuilder) -> (r: Result<PExpr>) ensures final(b).op == old(b).op { unimplemented!() }
#[verifier::external_body]
pub fn build_like_match(b: &mut PruningExpressionBuilder) -> (r: Option<PExpr>) ensures final(b).op == old(b).op { unimplemented!() }
