"""C22 (partial) — pruning never skips a container with a matching row: the comparison table of the predicate rewrite."""
LEVEL = "proof"
F = "datafusion/pruning/src/pruning_predicate.rs"
_T = [dict(rule="R3", regex=r"Arc<dyn PhysicalExpr>", replace="PExpr", count="any"),
      dict(rule="R13", regex=r"Arc::clone\(expr_builder\.scalar_expr\(\)\)", replace="expr_builder.scalar_expr()", count="any")]
VERUS = [dict(
    name="pruning_statistics_expr",
    uses="use vstd::prelude::*;\n",
    prelude="prelude.rs", proofs="proofs.rs", witness="witness.rs", rlimit=60, min_verified=6, twins=[], std_specs=False,
    items=[
        dict(file=F, path=["fn binary_expr"], ret="r",
             edits=_T + [dict(rule="R13", find="Arc::new(phys_expr::BinaryExpr::new(left, op, right))", replace="new_binary(left, op, right)")],
             contract="    ensures r == PExpr::Binary(Box::new(left), op, Box::new(right)),"),
        dict(file=F, path=["fn and_expr"], ret="r", edits=_T, proofs=[dict(at="body_start", text="\n    proof { reveal_with_fuel(tru, 4); }")],
             contract="    ensures r == PExpr::Binary(Box::new(left), Operator::And, Box::new(right)), forall|v: Env| #[trigger] tru(r, v) == (tru(left, v) && tru(right, v)),"),
        dict(file=F, path=["fn or_expr"], ret="r", edits=_T, proofs=[dict(at="body_start", text="\n    proof { reveal_with_fuel(tru, 4); }")],
             contract="    ensures r == PExpr::Binary(Box::new(left), Operator::Or, Box::new(right)), forall|v: Env| #[trigger] tru(r, v) == (tru(left, v) || tru(right, v)),"),
        dict(file=F, path=["fn build_eq_statistics_expr"], ret="r", proofs=[dict(at="body_start", text="\n    proof { reveal_with_fuel(tru, 4); }")], edits=_T,
             contract="    ensures final(expr_builder).op == old(expr_builder).op, r is Ok ==> keeps_matching_containers(Operator::Eq, r->Ok_0),"),
        dict(file=F, path=["fn build_ne_statistics_expr"], ret="r", proofs=[dict(at="body_start", text="\n    proof { reveal_with_fuel(tru, 4); }")], edits=_T,
             contract="    ensures final(expr_builder).op == old(expr_builder).op, r is Ok ==> keeps_matching_containers(Operator::NotEq, r->Ok_0),"),
        dict(file=F, path=["fn column_has_non_nulls_expr"], ret="r", proofs=[dict(at="body_start", text="\n    proof { reveal_with_fuel(tru, 4); }")], edits=_T,
             contract="""    ensures final(expr_builder).op == old(expr_builder).op,
        r is Ok ==> forall|v: Env| #[trigger] tru(r->Ok_0, v) == (v.nulls != v.rows),"""),
        dict(file=F, path=["fn wrap_null_count_check_expr"], ret="r", proofs=[dict(at="body_start", text="\n    proof { reveal_with_fuel(tru, 4); }")], edits=_T,
             contract="""    ensures final(expr_builder).op == old(expr_builder).op,
        r is Ok ==> forall|v: Env| #[trigger] tru(r->Ok_0, v) == (v.nulls != v.rows && tru(statistics_expr, v)),"""),
        dict(file=F, path=["fn build_statistics_expr"], ret="r", proofs=[dict(at="body_start", text="\n    proof { reveal_with_fuel(tru, 4); }")],
             edits=_T + [dict(rule="R13", regex=r"Arc::new\(phys_expr::BinaryExpr::new\(", replace="new_binary(", count=4),
                         dict(rule="R13", regex=r"\n            \)\)\n        \}", replace="\n            )\n        }", count=4),
                         dict(rule="R9", regex=r"build_like_match\(expr_builder\)\.ok_or_else\(\|\| \{\s*plan_datafusion_err!\((?:[^()]|\([^()]*\))*\)\s*\}\)\?", replace="match build_like_match(expr_builder) { Some(e_) => e_, None => return make_err() }", count=1),
                         dict(rule="R9", regex=r"return plan_err!\((?:[^()]|\([^()]*\))*\);", replace="return make_err();", count=1)],
             contract="""    requires comparison(old(expr_builder).op),
    ensures
        // a container holding a non-null row that satisfies `column op literal` is never pruned
        r is Ok ==> keeps_matching_containers(old(expr_builder).op, r->Ok_0),"""),
    ],
    mutants=[
        dict(name="gt_uses_min", item="build_statistics_expr", find="expr_builder.max_column_expr()?,\n                Operator::Gt,", replace="expr_builder.min_column_expr()?,\n                Operator::Gt,"),
        dict(name="lteq_becomes_lt", item="build_statistics_expr", find="Operator::LtEq,\n                expr_builder.scalar_expr(),", replace="Operator::Lt,\n                expr_builder.scalar_expr(),"),
        dict(name="eq_upper_strict", item="build_eq_statistics_expr", find="Operator::LtEq,\n            max_column_expr,", replace="Operator::Lt,\n            max_column_expr,"),
        dict(name="ne_uses_and", item="build_ne_statistics_expr", find="Ok(or_expr(", replace="Ok(and_expr("),
        dict(name="null_check_inverted", item="column_has_non_nulls_expr", find="Operator::NotEq,", replace="Operator::Eq,"),
    ],
)]
KANI = []
TRUSTED = ["Verus 0.2026.09.13 + bundled Z3",
           "TYPE MODEL of the expression layer: Arc<dyn PhysicalExpr> -> algebraic datatype PExpr (statistics columns, the predicate's literal, binary expressions); BinaryExpr::new / Literal::new mapped onto its constructors (R3 / R13); PruningExpressionBuilder behind an assumed view (its accessors return the min / max / null_count / row_count columns and the literal of the predicate)",
           "the semantics of the rewritten predicate (spec fns num / cmp / tru) is two-valued integer comparison: the statistics of the claim are known and non-null"]
ASSUMPTIONS = ["the predicate has been normalised to `column op literal` with a comparison operator (done by the builder, not verified)",
               "valid statistics: min <= x <= max for the non-null values x, 0 <= null_count < row_count when a non-null row exists",
               "integers stand for the engine's total order on the column type"]
NOT_COVERED = ["the arms IS [NOT] DISTINCT FROM, [NOT] LIKE, IN lists, boolean columns, casts and arithmetic on the column side (build_single_column_expr / rewrite_column_expr)",
               "unknown (NULL) statistics and three-valued evaluation of the rewritten predicate, LiteralGuarantee analysis, the Arrow evaluation of the predicate over statistics arrays",
               "build_predicate_expression's handling of AND / OR / NOT and of unsupported sub-expressions"]
EXPLANATION = "The table that decides which statistic is compared with the literal for each comparison operator (max for > / >=, min for < / <=, both for = / !=) and the null-count guard are proved to keep every container that holds a matching row."
