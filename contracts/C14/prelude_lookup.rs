// trusted: 64-bit target
global size_of usize == 8;
pub type MapOffset = (usize, Option<u64>);

/// ASSUMED contract of hashbrown::HashTable as used by the join hash map: a finite map from a
/// 64-bit hash to the 1-based head of that hash's chain (outside Verus; executed concretely only
/// by the bounded Kani harnesses)
#[verifier::external_body]
#[verifier::reject_recursive_types(T)]
pub struct HashTable<T> { _p: core::marker::PhantomData<T> }
impl HashTable<(u64, IDX)> {
    pub uninterp spec fn heads(&self) -> Map<u64, IDX>;
    pub uninterp spec fn spec_len(&self) -> usize;
    #[verifier::external_body]
    pub fn len(&self) -> (r: usize) ensures r == self.spec_len() { unimplemented!() }
}
/// R13: stands for `map.find(hash, |(h, _)| hash == *h)`
#[verifier::external_body]
pub fn map_find(map: &HashTable<(u64, IDX)>, hash: u64) -> (r: Option<&(u64, IDX)>)
    ensures
        r is Some <==> map.heads().contains_key(hash),
        r is Some ==> r->Some_0.0 == hash && r->Some_0.1 == map.heads()[hash],
{ unimplemented!() }

/// Arrow's NullBuffer: only `is_null(i)` is used
#[verifier::external_body]
pub struct NullBuffer { _p: u8 }
impl NullBuffer { pub uninterp spec fn null_spec(&self, i: int) -> bool; }
/// R13: stands for `valid_keys.is_some_and(|valid| valid.is_null(i))`
#[verifier::external_body]
pub fn key_is_null(valid_keys: Option<&NullBuffer>, i: usize) -> (r: bool)
    ensures r == null_at(valid_keys, i as int),
{ unimplemented!() }
pub open spec fn null_at(valid_keys: Option<&NullBuffer>, i: int) -> bool {
    valid_keys is Some && valid_keys->Some_0.null_spec(i)
}
