pub type IDX = u64;
spec fn dir_forward() -> bool { false }
/// rank of a 0-based row: strictly decreases along every chain.  Forward insertion
/// (symmetric hash join, streaming) links a row to an EARLIER row; reversed insertion
/// (hash join build side) links a row to a LATER row.
spec fn rank(len: int, row: int) -> int { if dir_forward() { row } else { len - row } }

/// well-formed `next` array: every link is 0 (end) or a 1-based index of a row of smaller rank
spec fn wf_chain(next: Seq<IDX>) -> bool {
    forall|i: int| 0 <= i < next.len() ==> (#[trigger] next[i]) == 0
        || (1 <= next[i] as int <= next.len() && rank(next.len() as int, next[i] as int - 1) < rank(next.len() as int, i))
}

/// the abstract view: rows (0-based, as u64) reached from the 1-based head `start`
spec fn chain(next: Seq<IDX>, start: IDX) -> Seq<u64>
    decreases (if start == 0 || start as int > next.len() { 0int } else { rank(next.len() as int, start as int - 1) + 1 })
{
    if start == 0 || start as int > next.len() || !wf_chain(next) { Seq::empty() }
    else { seq![(start - 1) as u64] + chain(next, next[start as int - 1]) }
}

/// a page of at most k matches starting at head `start`
spec fn page(next: Seq<IDX>, start: IDX, k: int) -> Seq<u64> {
    let full = chain(next, start);
    full.subrange(0, if full.len() <= k { full.len() as int } else { k })
}
/// head at which the walk resumes after a page of k
spec fn resume_head(next: Seq<IDX>, start: IDX, k: int) -> IDX
    decreases k
{
    if k <= 0 || start == 0 || start as int > next.len() || !wf_chain(next) { start }
    else { resume_head(next, next[start as int - 1], k - 1) }
}

/// paging is resumable: a page of k followed by a page of k2 from the resume head is a page of k + k2
proof fn lemma_resume(next: Seq<IDX>, start: IDX, k: int, k2: int)
    requires wf_chain(next), k >= 0, k2 >= 0,
    ensures page(next, start, k) + page(next, resume_head(next, start, k), k2) == page(next, start, k + k2),
    decreases k
{
    if k <= 0 || start == 0 || start as int > next.len() {
        assert(page(next, start, k) =~= Seq::<u64>::empty());
        assert(Seq::<u64>::empty() + page(next, start, k2) =~= page(next, start, k2));
    } else {
        let nx = next[start as int - 1];
        lemma_resume(next, nx, k - 1, k2);
        let full = chain(next, start);
        let rest = chain(next, nx);
        assert(full == seq![(start - 1) as u64] + rest);
        assert(page(next, start, k) =~= seq![(start - 1) as u64] + page(next, nx, k - 1));
        assert(page(next, start, k + k2) =~= seq![(start - 1) as u64] + page(next, nx, k - 1 + k2));
        assert(page(next, start, k) + page(next, resume_head(next, start, k), k2)
            =~= seq![(start - 1) as u64] + (page(next, nx, k - 1) + page(next, resume_head(next, nx, k - 1), k2)));
    }
}
