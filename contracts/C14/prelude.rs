// trusted: 64-bit target
global size_of usize == 8;
pub type MapOffset = (usize, Option<u64>);
