"""C14 — join hash-table lookups return exactly the matching build rows: the chain walker."""
LEVEL = "proof"
F = "datafusion/physical-plan/src/joins/chain.rs"

def mono(t):
    # R3: monomorphisation of the index type T (the crate instantiates exactly u32 and u64)
    return [
        dict(rule="R3", find="fn traverse_chain<T>(", replace="fn traverse_chain("),
        dict(rule="R3", find="next_chain: &[T],", replace="next_chain: &[%s]," % t),
        dict(rule="R3", find="start_chain_idx: T,", replace="start_chain_idx: %s," % t),
        dict(rule="R3", regex=r"where\s+T: Copy \+ TryFrom<usize> \+ PartialOrd \+ Into<u64> \+ Sub<Output = T>,\s+<T as TryFrom<usize>>::Error: Debug,\s+T: ArrowNativeType,\s*", replace="", count=1),
        dict(rule="R3", regex=r"T::usize_as\((\d+)\)", replace=r"(\1 as %s)" % t, count=2),
        dict(rule="R3", regex=r"(\w+)\.into\(\)", replace=r"(\1 as u64)", count=3),
    ]

CONTRACT = """    requires
        wf_chain(next_chain@),
        1 <= start_chain_idx as int <= next_chain@.len(),
        *old(remaining) >= 1,
        old(input_indices)@.len() == old(match_indices)@.len(),
    ensures
        ({
            let full = chain(next_chain@, start_chain_idx);
            let taken = if full.len() <= *old(remaining) { full.len() as int } else { *old(remaining) as int };
            // exactly the first min(len, remaining) rows of the chain, in chain order, appended
            &&& final(match_indices)@ == old(match_indices)@ + full.subrange(0, taken)
            &&& final(match_indices)@ == old(match_indices)@ + page(next_chain@, start_chain_idx, *old(remaining) as int)
            // one copy of the probe row index per match
            &&& final(input_indices)@ == old(input_indices)@ + Seq::new(taken as nat, |i: int| prob_idx as u32)
            &&& *final(remaining) == *old(remaining) - taken
            &&& taken >= 1
            // exact return value: None <=> nothing is left to resume (for the last input) / chain exhausted below the limit
            &&& (*final(remaining) > 0 ==> r is None && taken == full.len())
            &&& (*final(remaining) == 0 ==> (
                    if is_last_input && taken == full.len() { r is None }
                    else { r is Some && r->Some_0.0 == prob_idx && r->Some_0.1 is Some
                           && (r->Some_0.1->Some_0 as int) <= next_chain@.len()
                           && chain(next_chain@, r->Some_0.1->Some_0 as IDX) == full.subrange(taken, full.len() as int)
                           && (r->Some_0.1->Some_0 == 0 <==> taken == full.len()) }))
        }),"""

INV = """
        invariant
            zero == 0, one == 1,
            wf_chain(next_chain@),
            0 <= k < full.len(),
            full == chain(next_chain@, start_chain_idx),
            (match_row_idx as int) < next_chain@.len(),
            (match_row_idx as int) + 1 <= IDX::MAX,
            chain(next_chain@, (match_row_idx + 1) as IDX) == full.subrange(k, full.len() as int),
            *remaining >= 1,
            *remaining == *old(remaining) - k,
            match_indices@ == old(match_indices)@ + full.subrange(0, k),
            input_indices@ == old(input_indices)@ + Seq::new(k as nat, |i: int| prob_idx as u32),
        decreases rank(next_chain@.len() as int, match_row_idx as int)
"""

def unit(t, d):
    return dict(
        name="traverse_chain_%s_%s" % (t, "forward" if d else "reversed"),
        uses="use vstd::prelude::*;\n",
        prelude="prelude.rs", proofs="proofs_%s_%s.rs" % (t, "true" if d else "false"), witness="witness.rs" if d else None,
        rlimit=60, min_verified=4, twins=["c14_paged_lookup_bounded"],
        tier="quick" if (t == "u64" or d) else "thorough",
        items=[dict(file=F, path=["fn traverse_chain"], ret="r", edits=mono(t), contract=CONTRACT, loop_count=1,
                    loops={0: INV},
                    proofs=[
                        dict(at="before_loop:0", text="""
    let ghost full = chain(next_chain@, start_chain_idx);
    let ghost mut k: int = 0;
    proof {
        assert(full.subrange(0, 0) =~= Seq::<u64>::empty());
        assert(old(match_indices)@ + Seq::<u64>::empty() =~= old(match_indices)@);
        assert(old(input_indices)@ + Seq::new(0 as nat, |i: int| prob_idx as u32) =~= old(input_indices)@);
        assert(full.subrange(0, full.len() as int) =~= full);
    }"""),
                        dict(at="after_stmt_in_loop:0:3", text="""
        proof {
            let c = chain(next_chain@, (match_row_idx + 1) as IDX);
            assert(c == seq![match_row_idx as u64] + chain(next_chain@, next));
            assert(c[0] == match_row_idx as u64);
            assert(full[k] == match_row_idx as u64);
            assert(full.subrange(0, k + 1) =~= full.subrange(0, k).push(full[k]));
            assert(chain(next_chain@, next) =~= c.subrange(1, c.len() as int));
            assert(c.subrange(1, c.len() as int) =~= full.subrange(k + 1, full.len() as int));
            assert(Seq::new((k + 1) as nat, |i: int| prob_idx as u32) =~= Seq::new(k as nat, |i: int| prob_idx as u32).push(prob_idx as u32));
            k = k + 1;
            if next == 0 {
                assert(chain(next_chain@, next) =~= Seq::<u64>::empty());
                assert(k == full.len());
            } else {
                assert(chain(next_chain@, next).len() >= 1);
                assert(k < full.len());
            }
            assert(full.subrange(0, k).len() == k);
            assert(full.subrange(0, full.len() as int) =~= full);
        }"""),
                    ])],
        mutants=[
            dict(name="return_stale_offset", find="Some((prob_idx, Some((next as u64))))", replace="Some((prob_idx, Some((match_row_idx as u64))))"),
            dict(name="drop_last_flag", find="is_last_input && next == zero", replace="next == zero"),
            dict(name="skip_first", find="let mut match_row_idx = start_chain_idx - one;", replace="let mut match_row_idx = start_chain_idx - one; let start_chain_idx = start_chain_idx;\n    if next_chain[(match_row_idx as u64) as usize] != zero { match_row_idx = next_chain[(match_row_idx as u64) as usize] - one; }"),
            dict(name="wrong_probe_index", find="input_indices.push(prob_idx as u32);", replace="input_indices.push((prob_idx + 1) as u32);"),
            dict(name="push_one_based", find="match_indices.push((match_row_idx as u64));", replace="match_indices.push((match_row_idx as u64) + 1);"),
        ],
    )

VERUS = [unit("u64", True), unit("u64", False), unit("u32", True), unit("u32", False)]
KANI = []
TRUSTED = ["Verus 0.2026.09.13 + bundled Z3", "global size_of usize == 8", "rewrite R3: T monomorphised to u32 and to u64 (the two instantiations of the crate); T::usize_as == `as`; Into<u64> == `as u64`"]
ASSUMPTIONS = ["precondition: `next` is well formed (every link points to a row of strictly smaller rank: earlier row for forward insertion, later row for reversed insertion)",
               "precondition from call sites: remaining >= 1 (limit = batch_size >= 1), 1 <= start <= len"]
NOT_COVERED = ["hashbrown::HashTable lookups (outside Verus; bounded Kani stand-in)", "NULL-key mask", "get_matched_indices (non-paged) loop"]
EXPLANATION = "The paged chain walk proved to return exactly the next min(remaining, len) rows of the chain and an offset from which the remainder of the same chain is produced (lemma_resume: pages concatenate to the unpaged sequence)."

KANI = [dict(package="datafusion-physical-plan", module="physical_plan/join_hash_map.rs", timeout=2400, harnesses=[
    dict(name="c14_paged_lookup_bounded_chained_forward", complete=False, bound="build [10,10,20,30] inserted forward, probe [10,20,30,20] (concrete); symbolic NULL mask, page size 1..=6; JoinHashMapU32",
         what="update_from_iter + get_matched_indices_with_limit_offset in a paging loop == reference (every non-NULL probe row x every equal-hash build row exactly once, in chain order), for every page size and NULL mask"),
    dict(name="c14_paged_lookup_bounded_chained_reversed_u64", complete=False, bound="build [7,9,7,9,7] inserted in reverse (hash-join build order), probe [9,7,5,7]; symbolic NULL mask, page size 1..=6; JoinHashMapU64; contain_hashes checked",
         what="same, reversed insertion, 64-bit index map, plus membership test agrees with the build side"),
    dict(name="c14_paged_lookup_bounded_unique_keys", complete=False, bound="build [1,2,3] (unique keys fast path), probe [3,1,4,2]; symbolic NULL mask, page size 1..=6",
         what="unique-key fast path agrees with the reference"),
])]
TRUSTED += ["Kani 0.68 / CBMC 6.11 for the bounded map-API harnesses (hashbrown executed concretely)"]
