"""C14 — join hash-table lookups return exactly the matching build rows: the chain walker."""
LEVEL = "proof"
F = "datafusion/physical-plan/src/joins/chain.rs"

def mono(t):
    # R3: monomorphisation of the index type T (the crate instantiates exactly u32 and u64)
    return [
        dict(rule="R3", find="fn traverse_chain<T>(", replace="fn traverse_chain("),
        dict(rule="R3", find="next_chain: &[T],", replace="next_chain: &[%s]," % t),
        dict(rule="R3", find="start_chain_idx: T,", replace="start_chain_idx: %s," % t),
        dict(rule="R3", regex=r"where\s+T: Copy \+ TryFrom<usize> \+ PartialOrd \+ Into<u64> \+ Sub<Output = T>,\s+<T as TryFrom<usize>>::Error: Debug,\s+T: ArrowNativeType,\s*", replace="", count=1),
        dict(rule="R3", regex=r"T::usize_as\((\d+)\)", replace=r"(\1 as %s)" % t, count=2),
        dict(rule="R3", regex=r"(\w+)\.into\(\)", replace=r"(\1 as u64)", count=3),
    ]

CONTRACT = """    requires
        wf_chain(next_chain@),
        1 <= start_chain_idx as int <= next_chain@.len(),
        *old(remaining) >= 1,
        old(input_indices)@.len() == old(match_indices)@.len(),
    ensures
        ({
            let full = chain(next_chain@, start_chain_idx);
            let taken = if full.len() <= *old(remaining) { full.len() as int } else { *old(remaining) as int };
            // exactly the first min(len, remaining) rows of the chain, in chain order, appended
            &&& final(match_indices)@ == old(match_indices)@ + full.subrange(0, taken)
            &&& final(match_indices)@ == old(match_indices)@ + page(next_chain@, start_chain_idx, *old(remaining) as int)
            // one copy of the probe row index per match
            &&& final(input_indices)@ == old(input_indices)@ + Seq::new(taken as nat, |i: int| prob_idx as u32)
            &&& *final(remaining) == *old(remaining) - taken
            &&& taken >= 1
            // exact return value: None <=> nothing is left to resume (for the last input) / chain exhausted below the limit
            &&& (*final(remaining) > 0 ==> r is None && taken == full.len())
            &&& (*final(remaining) == 0 ==> (
                    if is_last_input && taken == full.len() { r is None }
                    else { r is Some && r->Some_0.0 == prob_idx && r->Some_0.1 is Some
                           && (r->Some_0.1->Some_0 as int) <= next_chain@.len() && r->Some_0.1->Some_0 <= IDX::MAX
                           && chain(next_chain@, r->Some_0.1->Some_0 as IDX) == full.subrange(taken, full.len() as int)
                           && (r->Some_0.1->Some_0 == 0 <==> taken == full.len()) }))
        }),"""

INV = """
        invariant
            zero == 0, one == 1,
            wf_chain(next_chain@),
            0 <= k < full.len(),
            full == chain(next_chain@, start_chain_idx),
            (match_row_idx as int) < next_chain@.len(),
            (match_row_idx as int) + 1 <= IDX::MAX,
            chain(next_chain@, (match_row_idx + 1) as IDX) == full.subrange(k, full.len() as int),
            *remaining >= 1,
            *remaining == *old(remaining) - k,
            match_indices@ == old(match_indices)@ + full.subrange(0, k),
            input_indices@ == old(input_indices)@ + Seq::new(k as nat, |i: int| prob_idx as u32),
        decreases rank(next_chain@.len() as int, match_row_idx as int)
"""

def unit(t, d):
    return dict(
        name="traverse_chain_%s_%s" % (t, "forward" if d else "reversed"),
        uses="use vstd::prelude::*;\n",
        prelude="prelude.rs", proofs="proofs_%s_%s.rs" % (t, "true" if d else "false"), witness="witness.rs" if d else None,
        rlimit=60, min_verified=4, twins=[],
        tier="quick" if (t == "u64" or d) else "thorough",
        items=[dict(file=F, path=["fn traverse_chain"], ret="r", edits=mono(t), contract=CONTRACT, loop_count=1,
                    loops={0: INV},
                    proofs=[
                        dict(at="before_loop:0", text="""
    let ghost full = chain(next_chain@, start_chain_idx);
    let ghost mut k: int = 0;
    proof {
        assert(full.subrange(0, 0) =~= Seq::<u64>::empty());
        assert(old(match_indices)@ + Seq::<u64>::empty() =~= old(match_indices)@);
        assert(old(input_indices)@ + Seq::new(0 as nat, |i: int| prob_idx as u32) =~= old(input_indices)@);
        assert(full.subrange(0, full.len() as int) =~= full);
    }"""),
                        dict(at="after_stmt_in_loop:0:3", text="""
        proof {
            let c = chain(next_chain@, (match_row_idx + 1) as IDX);
            assert(c == seq![match_row_idx as u64] + chain(next_chain@, next));
            assert(c[0] == match_row_idx as u64);
            assert(full[k] == match_row_idx as u64);
            assert(full.subrange(0, k + 1) =~= full.subrange(0, k).push(full[k]));
            assert(chain(next_chain@, next) =~= c.subrange(1, c.len() as int));
            assert(c.subrange(1, c.len() as int) =~= full.subrange(k + 1, full.len() as int));
            assert(Seq::new((k + 1) as nat, |i: int| prob_idx as u32) =~= Seq::new(k as nat, |i: int| prob_idx as u32).push(prob_idx as u32));
            k = k + 1;
            if next == 0 {
                assert(chain(next_chain@, next) =~= Seq::<u64>::empty());
                assert(k == full.len());
            } else {
                assert(chain(next_chain@, next).len() >= 1);
                assert(k < full.len());
            }
            assert(full.subrange(0, k).len() == k);
            assert(full.subrange(0, full.len() as int) =~= full);
        }"""),
                    ])],
        mutants=[
            dict(name="return_stale_offset", find="Some((prob_idx, Some((next as u64))))", replace="Some((prob_idx, Some((match_row_idx as u64))))"),
            dict(name="drop_last_flag", find="is_last_input && next == zero", replace="next == zero"),
            dict(name="skip_first", find="let mut match_row_idx = start_chain_idx - one;", replace="let mut match_row_idx = start_chain_idx - one; let start_chain_idx = start_chain_idx;\n    if next_chain[(match_row_idx as u64) as usize] != zero { match_row_idx = next_chain[(match_row_idx as u64) as usize] - one; }"),
            dict(name="wrong_probe_index", find="input_indices.push(prob_idx as u32);", replace="input_indices.push((prob_idx + 1) as u32);"),
            dict(name="push_one_based", find="match_indices.push((match_row_idx as u64));", replace="match_indices.push((match_row_idx as u64) + 1);"),
        ],
    )

VERUS = [unit("u64", True), unit("u64", False), unit("u32", True), unit("u32", False)]
for _u in VERUS:
    if _u["name"] not in ("traverse_chain_u64_forward", "traverse_chain_u32_reversed"):
        _u["mutants"] = []
KANI = []
TRUSTED = ["Verus 0.2026.09.13 + bundled Z3", "global size_of usize == 8", "rewrite R3: T monomorphised to u32 and to u64 (the two instantiations of the crate); T::usize_as == `as`; Into<u64> == `as u64`"]
ASSUMPTIONS = ["precondition: `next` is well formed (every link points to a row of strictly smaller rank: earlier row for forward insertion, later row for reversed insertion)",
               "precondition from call sites: remaining >= 1 (limit = batch_size >= 1), 1 <= start <= len"]
NOT_COVERED = ["hashbrown::HashTable itself and update_from_iter (assumed: find contract, valid heads, unique-keys invariant)", "get_matched_indices (non-paged) loop", "contain_hashes (Arrow BooleanBuffer::collect_bool)"]
EXPLANATION = "The paged chain walk proved to return exactly the next min(remaining, len) rows of the chain and an offset from which the remainder of the same chain is produced (lemma_resume: pages concatenate to the unpaged sequence)."

# The bounded Kani harnesses of the whole map API (kani/physical_plan/join_hash_map.rs) are NOT registered:
# hashbrown does not finish under CBMC here even for `with_capacity(3)` + three concrete inserts
# (probed: 15 min timeout; the full paged-lookup harnesses 30 min).  The file is kept for reference.


# ------------------------------------------------------------------------------------------
# second Verus family: the whole paged lookup (get_matched_indices_with_limit_offset), with
# hashbrown::HashTable::find and NullBuffer::is_null behind assumed contracts
# ------------------------------------------------------------------------------------------
FJ = "datafusion/physical-plan/src/joins/join_hash_map.rs"

def mono_lookup(t):
    return [
        dict(rule="R3", find="fn get_matched_indices_with_limit_offset<T>(", replace="fn get_matched_indices_with_limit_offset("),
        dict(rule="R3", find="map: &HashTable<(u64, T)>,", replace="map: &HashTable<(u64, %s)>," % t),
        dict(rule="R3", find="next_chain: &[T],", replace="next_chain: &[%s]," % t),
        dict(rule="R3", regex=r"where\s+T: Copy \+ TryFrom<usize> \+ PartialOrd \+ Into<u64> \+ Sub<Output = T>,\s+<T as TryFrom<usize>>::Error: Debug,\s+T: ArrowNativeType,\s*", replace="", count=1),
        dict(rule="R3", find="let one = T::try_from(1).unwrap();", replace="let one = (1 as %s);" % t),
        dict(rule="R3", find="let next_idx: T = T::usize_as(next_idx as usize);", replace="let next_idx: %s = ((next_idx as usize) as %s);" % (t, t)),
        dict(rule="R3", find="let idx: T = *idx;", replace="let idx: %s = *idx;" % t),
        dict(rule="R3", find="match_indices.push((*idx - one).into());", replace="match_indices.push((*idx - one) as u64);"),
        # R1 (generic): `for (I, &X) in S[a..b].iter().enumerate() {` / `S[a..]` / plain `S`  ->  range loop + indexed read
        dict(rule="R1", regex=r"for \((\w+), &(\w+)\) in (\w+)\[(\w+)\.\.(\w+)\]\.iter\(\)\.enumerate\(\) \{", replace=r"for \1 in 0..(\5 - \4) { let \2 = \3[\4 + \1];", count="any"),
        dict(rule="R1", regex=r"for \((\w+), &(\w+)\) in (\w+)\[(\w+)\.\.\]\.iter\(\)\.enumerate\(\) \{", replace=r"for \1 in 0..(\3.len() - \4) { let \2 = \3[\4 + \1];", count="any"),
        dict(rule="R1", regex=r"for \((\w+), &(\w+)\) in (\w+)\.iter\(\)\.enumerate\(\) \{", replace=r"for \1 in 0..\3.len() { let \2 = \3[\1];", count="any"),
        # R1 (generic): `let X = &S[a..];` -> verified prelude fn slice_from (vstd slice_subrange)
        dict(rule="R1", regex=r"let (\w+) = &(\w+)\[(\w+)\.\.\];", replace=r"let \1 = slice_from(\2, \3);", count="any"),
        dict(rule="R13", regex=r"valid_keys\.is_some_and\(\|valid\| valid\.is_null\(([^()]*)\)\)", replace=r"key_is_null(valid_keys, \1)", count=2),
        dict(rule="R13", find="map.find(hash, |(h, _)| hash == *h)", replace="map_find(map, hash)", count=2),
        dict(rule="R11", find="(start + limit).min(hash_values.len())", replace="min_usize(start + limit, hash_values.len())"),
        # R18: `if c { continue; } REST` at the head of a loop body -> `if !c { REST }` (for-loops with `continue` are
        # outside the subset); REST = the remainder of the loop body up to its closing brace (indentation-anchored regex)
        dict(rule="R18", regex=r"if (key_is_null\([^)]*\)) \{\s*continue;\s*\}\n(.*?)\n(        \})", replace=r"if !\1 {\n\2\n            }\n\3", count=2),
    ]

ARGS = "map.heads(), next_chain@, hash_values@, valid_keys"
LOOKUP_CONTRACT = """    requires
        wf_chain(next_chain@), wf_map(map.heads(), next_chain@),
        1 <= limit <= usize::MAX / 2,
        hash_values@.len() <= u32::MAX,
        offset_ok(next_chain@, hash_values@, offset),
        // unique-keys fast path: as many distinct hashes as build rows means no chains (invariant of update_from_iter),
        // and that path only produces / accepts row offsets
        map.spec_len() == next_chain@.len() ==> offset.1 is None && forall|j: int| 0 <= j < next_chain@.len() ==> next_chain@[j] == 0,
    ensures
        // pages concatenate to the unpaged answer: what this call returns followed by what the returned offset
        // still stands for is exactly what the incoming offset stood for (nothing lost, duplicated or invented;
        // NULL-key probe rows contribute nothing)
        final(match_indices)@ + opt_b(""" + ARGS + """, r) == off_b(""" + ARGS + """, offset),
        final(input_indices)@ + opt_a(""" + ARGS + """, r) == off_a(""" + ARGS + """, offset),
        final(match_indices)@.len() == final(input_indices)@.len(),
        final(match_indices)@.len() <= limit,
        // the returned offset can be fed back, and paging makes progress
        r is Some ==> offset_ok(next_chain@, hash_values@, r->Some_0)
                      && (map.spec_len() == next_chain@.len() ==> r->Some_0.1 is None)
                      && (r->Some_0.0 > offset.0 || final(match_indices)@.len() >= 1),"""

INV_COMMON = """
            wf_chain(next_chain@), wf_map(map.heads(), next_chain@), one == 1,
            hash_values@.len() <= u32::MAX, limit <= usize::MAX / 2,
            match_indices@.len() == input_indices@.len(),
"""
INV_UNIQUE = """
        invariant""" + INV_COMMON + """
            start == offset.0, offset.1 is None, start <= end <= hash_values@.len(), end <= start + limit,
            forall|j: int| 0 <= j < next_chain@.len() ==> next_chain@[j] == 0,
            match_indices@.len() <= i,
            match_indices@ + rest_b(""" + ARGS + """, start + i) == rest_b(""" + ARGS + """, start as int),
            input_indices@ + rest_a(""" + ARGS + """, start + i) == rest_a(""" + ARGS + """, start as int),
"""
INV_CHAINED = """
        invariant""" + INV_COMMON + """
            to_skip <= hash_values@.len(), hash_values_len == hash_values@.len(),
            match_indices@.len() + remaining_output == limit,
            remaining_output >= 1 || to_skip + i >= hash_values@.len(),
            map.spec_len() != next_chain@.len(),
            match_indices@ + rest_b(""" + ARGS + """, to_skip + i) == off_b(""" + ARGS + """, offset),
            input_indices@ + rest_a(""" + ARGS + """, to_skip + i) == off_a(""" + ARGS + """, offset),
"""

def lookup_unit(t, d):
    return dict(
        name="paged_lookup_%s_%s" % (t, "forward" if d else "reversed"),
        uses="use vstd::prelude::*;\n",
        prelude="prelude_lookup.rs",
        proofs_header="pub type IDX = %s;\nspec fn dir_forward() -> bool { %s }\n" % (t, "true" if d else "false"),
        proofs=["proofs_common.rs", "proofs_lookup.rs"],
        witness="witness_lookup.rs", rlimit=120, min_verified=8, twins=[],
        tier="quick" if (t, d) in (("u64", True), ("u32", False)) else "thorough",
        items=[
            dict(file=F, path=["fn traverse_chain"], ret="r", edits=mono(t), contract=CONTRACT, loop_count=1,
                 loops={0: INV}, proofs=VERUS[0]["items"][0]["proofs"]),
            dict(file=FJ, path=["fn get_matched_indices_with_limit_offset"], ret="r", edits=mono_lookup(t), loop_count=2,
                 contract=LOOKUP_CONTRACT, loops={0: INV_UNIQUE, 1: INV_CHAINED},
                 proofs=[
                     dict(at="loop_body_start:0", text="""
            proof {
                let row = start + i;
                assert(rest_b(""" + ARGS + """, row as int) == row_matches(""" + ARGS + """, row as int) + rest_b(""" + ARGS + """, row + 1));
                assert(rest_a(""" + ARGS + """, row as int) == Seq::new(row_matches(""" + ARGS + """, row as int).len(), |q: int| row as u32) + rest_a(""" + ARGS + """, row + 1));
                assert(Seq::<u64>::empty() + rest_b(""" + ARGS + """, row + 1) =~= rest_b(""" + ARGS + """, row + 1));
                assert(Seq::<u32>::new(0, |q: int| row as u32) + rest_a(""" + ARGS + """, row + 1) =~= rest_a(""" + ARGS + """, row + 1));
                let h = hash_values@[row as int];
                if map.heads().contains_key(h) {
                    let k = map.heads()[h];
                    assert(chain(next_chain@, 0 as IDX) =~= Seq::<u64>::empty());
                    assert(chain(next_chain@, k) =~= seq![(k - 1) as u64]);
                }
            }"""),
                     dict(at="loop_body_end:0", text="""
            proof {
                let row = start + i;
                let rm = row_matches(""" + ARGS + """, row as int);
                if !null_at(valid_keys, row as int) && map.heads().contains_key(hash_values@[row as int]) {
                    let k = map.heads()[hash_values@[row as int]];
                    assert(rm =~= seq![(k - 1) as u64]);
                    assert(match_indices@ + rest_b(""" + ARGS + """, row + 1) =~= match_indices@.drop_last() + (rm + rest_b(""" + ARGS + """, row + 1)));
                    assert(Seq::new(rm.len(), |q: int| row as u32) =~= seq![row as u32]);
                    assert(input_indices@ + rest_a(""" + ARGS + """, row + 1) =~= input_indices@.drop_last() + (seq![row as u32] + rest_a(""" + ARGS + """, row + 1)));
                }
            }"""),
                 ]),
        ],
        mutants=[
            dict(name="null_mask_relative_index", item="get_matched_indices_with_limit_offset", find="key_is_null(valid_keys, row_idx)", replace="key_is_null(valid_keys, i)"),
            dict(name="resume_skips_a_row", item="get_matched_indices_with_limit_offset", find="(idx, None) => idx,", replace="(idx, None) => idx + 1,"),
            dict(name="resume_zero_repeats_row", item="get_matched_indices_with_limit_offset", find="(idx, Some(0)) => idx + 1,", replace="(idx, Some(0)) => idx,"),
            dict(name="unique_path_wrong_probe_index", item="get_matched_indices_with_limit_offset", find="input_indices.push(start as u32 + i as u32);", replace="input_indices.push(i as u32);"),
            dict(name="unique_path_end_off_by_one", item="get_matched_indices_with_limit_offset", find="Some((end, None))", replace="Some((end + 1, None))"),
            dict(name="last_flag_wrong", item="get_matched_indices_with_limit_offset", find="let is_last = row_idx == hash_values_len - 1;", replace="let is_last = row_idx + 1 >= hash_values_len - 1;"),
        ],
    )

_lk = [lookup_unit("u64", True), lookup_unit("u32", False), lookup_unit("u64", False), lookup_unit("u32", True)]
for _u in _lk[2:]:
    _u["mutants"] = []
VERUS += _lk
TRUSTED += ["ASSUMED contract of hashbrown::HashTable::find (map from hash to chain head) and of arrow NullBuffer::is_null (prelude_lookup.rs)",
            "rewrites R1 (slice-iter-enumerate loops), R11, R13 (closures -> prelude fns)"]
ASSUMPTIONS += ["every head stored in the hash table is a valid 1-based row index (invariant of update_from_iter, not verified)",
                "unique-keys fast path: map.len() == next.len() implies every next entry is 0 (invariant of update_from_iter)",
                "probe batch rows <= u32::MAX, limit <= usize::MAX/2, incoming offset valid (produced by an earlier call or (0, None))"]
