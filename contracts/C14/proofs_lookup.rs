/// every head stored in the map is a valid 1-based row index (established by update_from_iter)
spec fn wf_map(heads: Map<u64, IDX>, next: Seq<IDX>) -> bool {
    forall|h: u64| heads.contains_key(h) ==> 1 <= (#[trigger] heads[h]) as int <= next.len()
}
/// build rows matched by probe row r, in chain order
spec fn row_matches(heads: Map<u64, IDX>, next: Seq<IDX>, hashes: Seq<u64>, valid: Option<&NullBuffer>, r: int) -> Seq<u64> {
    if null_at(valid, r) || !heads.contains_key(hashes[r]) { Seq::empty() } else { chain(next, heads[hashes[r]]) }
}
/// THE UNPAGED ANSWER from probe row r on: for every non-NULL probe row every build row with an equal hash, once
spec fn rest_b(heads: Map<u64, IDX>, next: Seq<IDX>, hashes: Seq<u64>, valid: Option<&NullBuffer>, r: int) -> Seq<u64>
    decreases hashes.len() - r
{
    if r < 0 || r >= hashes.len() { Seq::empty() }
    else { row_matches(heads, next, hashes, valid, r) + rest_b(heads, next, hashes, valid, r + 1) }
}
spec fn rest_a(heads: Map<u64, IDX>, next: Seq<IDX>, hashes: Seq<u64>, valid: Option<&NullBuffer>, r: int) -> Seq<u32>
    decreases hashes.len() - r
{
    if r < 0 || r >= hashes.len() { Seq::empty() }
    else { Seq::new(row_matches(heads, next, hashes, valid, r).len(), |i: int| r as u32) + rest_a(heads, next, hashes, valid, r + 1) }
}
/// what remains to be delivered from a resume offset
spec fn off_b(heads: Map<u64, IDX>, next: Seq<IDX>, hashes: Seq<u64>, valid: Option<&NullBuffer>, o: MapOffset) -> Seq<u64> {
    match o.1 {
        None => rest_b(heads, next, hashes, valid, o.0 as int),
        Some(k) => if k == 0 { rest_b(heads, next, hashes, valid, o.0 + 1) }
                   else { chain(next, k as IDX) + rest_b(heads, next, hashes, valid, o.0 + 1) },
    }
}
spec fn off_a(heads: Map<u64, IDX>, next: Seq<IDX>, hashes: Seq<u64>, valid: Option<&NullBuffer>, o: MapOffset) -> Seq<u32> {
    match o.1 {
        None => rest_a(heads, next, hashes, valid, o.0 as int),
        Some(k) => if k == 0 { rest_a(heads, next, hashes, valid, o.0 + 1) }
                   else { Seq::new(chain(next, k as IDX).len(), |i: int| o.0 as u32) + rest_a(heads, next, hashes, valid, o.0 + 1) },
    }
}
spec fn offset_ok(next: Seq<IDX>, hashes: Seq<u64>, o: MapOffset) -> bool {
    match o.1 {
        None => o.0 <= hashes.len(),
        Some(k) => o.0 < hashes.len() && k as int <= next.len() && k <= IDX::MAX,
    }
}
spec fn opt_b(heads: Map<u64, IDX>, next: Seq<IDX>, hashes: Seq<u64>, valid: Option<&NullBuffer>, o: Option<MapOffset>) -> Seq<u64> {
    match o { Some(x) => off_b(heads, next, hashes, valid, x), None => Seq::empty() }
}
spec fn opt_a(heads: Map<u64, IDX>, next: Seq<IDX>, hashes: Seq<u64>, valid: Option<&NullBuffer>, o: Option<MapOffset>) -> Seq<u32> {
    match o { Some(x) => off_a(heads, next, hashes, valid, x), None => Seq::empty() }
}
fn min_usize(a: usize, b: usize) -> (r: usize) ensures r == (if a <= b { a } else { b }) { if a <= b { a } else { b } }
/// R1: stands for `&s[a..]`
fn slice_from<T>(s: &[T], a: usize) -> (r: &[T]) requires a <= s@.len() ensures r@ == s@.subrange(a as int, s@.len() as int) {
    vstd::slice::slice_subrange(s, a, s.len())
}
