fn witness_walk() {
    let mut next: Vec<IDX> = Vec::new();
    next.push(0);
    let mut rem: usize = 3;
    let mut a: Vec<u32> = Vec::new();
    let mut b: Vec<u64> = Vec::new();
    assert(wf_chain(next@));
    let r = traverse_chain(next.as_slice(), 7, 1, &mut rem, &mut a, &mut b, true);
    //@MUSTFAIL
}
