fn witness_lookup(map: &HashTable<(u64, IDX)>, next: &[IDX], hashes: &[u64], a: &mut Vec<u32>, b: &mut Vec<u64>)
    requires wf_chain(next@), wf_map(map.heads(), next@), hashes@.len() <= 10, map.spec_len() != next@.len(),
{
    let r = get_matched_indices_with_limit_offset(map, next, hashes, None, 3, (0, None), a, b);
    //@MUSTFAIL
}
fn witness_lookup_resume(map: &HashTable<(u64, IDX)>, next: &[IDX], hashes: &[u64], a: &mut Vec<u32>, b: &mut Vec<u64>)
    requires wf_chain(next@), wf_map(map.heads(), next@), 2 <= hashes@.len() <= 10, map.spec_len() != next@.len(), next@.len() >= 1,
{
    let r = get_matched_indices_with_limit_offset(map, next, hashes, None, 1, (0, Some(1)), a, b);
    //@MUSTFAIL
}
