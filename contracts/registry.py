"""Which properties are claimed (and how) and which are not applicable (and why)."""

HOOK_COMMITS = ["b8da976", "b9b8f57", "e9be43a", "cdf7848"]

CLAIMS = {
    "C05": dict(
        category="proof", technique="contract-based deductive verification (Verus/SMT, inductive invariants over a sequence view, on the extracted real functions; Arrow array behind an assumed sequence view)",
        text="Dense-key (perfect-hash) join map only: ArrayMap::{calculate_range, key_to_index, get_value, fill_data, try_new} are proved to build, for every key, a chain listing exactly the build rows with that key in ascending order (both representations: no duplicates / chained), and ArrayMap::lookup_and_get_indices is proved to return, page by page and for every resume offset, exactly the join of the probe key column with the build key column: for every non-NULL probe row, in order, every build row with an equal key, each once; NULL probes match nothing; at most `limit` pairs per page; pages concatenate to the unpaged answer. Also under contract: the index kernels behind semi/anti/outer emission, get_anti_indices (exactly the rows of the range that were not matched, ascending, each once) and get_semi_indices (exactly the matched rows of the range, in order, duplicates removed), for every ascending index array. All other join operators, join types, filters and the emission logic around these kernels are whole-engine behaviour outside the reach of function contracts and are not claimed.",
        note="Trusted: Verus+Z3; usize 64 bit; Arrow PrimitiveArray viewed as Seq<Option<u64>> through assumed accessors; generic key type abstracted to its u64 image (R3), the type-dispatch macro replaced by the call it expands to; rewrites R1/R6/R9/R13/R18 and a ghost parameter naming the build column. Preconditions from call sites: build rows < u32::MAX, probe rows <= u32::MAX, 1 <= limit."),
    "C06": dict(
        category="proof", technique="contract-based verification with Kani/CBMC on the real crate (loop-free full-domain harnesses over the state machines)",
        text="The ordered-aggregation emission state machines GroupOrderingFull / GroupOrderingPartial are proved, for every state and every argument, never to release the group (or sort-key run) that can still receive rows: emit_to is None / First(n) with n <= the open group / All only after input_done; remove_groups renumbers by exactly n; illegal transitions panic. Everything else in C06 (hash tables, accumulators, spilling, TopK, partial/final agreement) is whole-engine and not claimed.",
        note="Trusted: Kani/CBMC. Assumed: representation invariant current_sort <= current of GroupOrderingPartial (established by new_groups via arrow partition ranges, which is not verified)."),
    "C08": dict(
        category="proof", technique="contract-based verification with Kani/CBMC on the real crate (loop-free harness, symbolic inner order)",
        text="The per-column merge comparator ArrayValues::{is_null, compare, eq, eq_to_previous, get_value, eq_to_single_row_value} is proved to implement exactly the requested ordering rule for every SortOptions combination, every null threshold and an arbitrary inner order: NULL placement by nulls_first independent of direction, values reversed iff descending, eq <=> Equal, antisymmetric, transitive. Bounded stand-in for the loser tree (real is_gt / init_loser_tree / update_loser_tree on a forged stream, k <= 4): permutation + minimum at the root. Batch building, spilling, TopK are not within reach and not claimed.",
        note="Trusted: Kani/CBMC; inner CursorValues modelled by a symbolic order on 4 slots; NULL layout (prefix/suffix by null_threshold) as established by ArrayValues::new."),
    "C09": dict(
        category="proof", technique="contract-based deductive verification (Verus/SMT on the extracted real functions; non-linear lemmas for NTILE, closure contracts for the search kernels)",
        text="ROWS-frame computation (WindowFrameContext::calculate_range_rows) proved, for every u64 offset, every frame shape and every idx < length, to return exactly the mathematical frame {j | 0<=j<length, idx-p<=j<=idx+f} with no arithmetic overflow. Also under contract: is_end_bound_safe_for_groups (overflow-free for every u64 offset; only final when exactly n+1 groups remain); the RANGE/GROUPS search kernels find_bisect_point and search_in_slice (partition point / first failing row of an arbitrary comparison closure on [low, high), no overflow); and the NTILE evaluator (NtileEvaluator::evaluate_all): every row gets exactly the bucket of the SQL definition - buckets 1..=n, sizes as equal as possible, the larger ones first - for every n >= 1 and every row count. The frame-bound search around the kernels, the GROUPS index computation, the other evaluators, sliding retraction and the executors are outside the reach of contracts and not claimed.",
        note="Trusted: Verus+Z3; usize is 64 bit; type model of ScalarValue/WindowFrameBound limited to the variants the function matches; get_row_at_idx and the Arrow column constructor behind assumed contracts; rewrites R9/R11/R13 and ghost parameter G1 (the predicate the closure decides); preconditions idx < length, n >= 1 (checked at construction), num_rows <= isize::MAX, predicate prefix-closed on [low, high) for the bisection."),
    "C10": dict(
        category="proof", technique="contract-based deductive verification (Verus/SMT on extracted real functions; comparison and Arrow access behind assumed contracts)",
        text="Routing decision of range repartitioning: range_partition_id returns the number of split points <= row (binary search proved against a counting spec under an abstract total pre-order), and partition_range_indices puts every row of a batch exactly once into the bucket of its partition id (view invariant over all buckets). RangeExpr::evaluate is checked to call the same contracted function with its own split points. Hash routing is proved under C11. Channels, spilling, drop handling and order-preserving merge (schedules, I/O) are not within reach and are not claimed.",
        note="Trusted: Verus+Z3; compare_rows as uninterpreted comparison with assumed transitivity; extract_row_at_idx_to_buf / first().len() / SplitPoint::values behind assumed contracts; split points strictly sorted (validate_range_split_points) and indices.len()==splits+1 as preconditions; rewrites R3/R13."),
    "C14": dict(
        category="proof", technique="contract-based deductive verification (Verus/SMT, inductive loop invariant over a chain-sequence view, on the extracted real function, monomorphised u32/u64)",
        text="traverse_chain proved, for every well-formed next-array (forward or reversed insertion order), every start, every page size, to append exactly the next min(remaining, len) build rows of the chain in chain order with the probe index repeated, to decrement the budget exactly, and to return an offset from which the remainder of the same chain is produced (lemma_resume: pages of any size concatenate to the unpaged sequence). The whole paged lookup get_matched_indices_with_limit_offset (chained path and unique-keys fast path, NULL mask, every resume offset form) is proved against the unpaged answer: what a call returns followed by what its returned offset stands for is exactly what the incoming offset stood for, at most `limit` matches per page, the offset can be fed back and paging progresses. hashbrown::HashTable::find and update_from_iter are behind assumed contracts.",
        note="Trusted: Verus+Z3; usize 64 bit; rewrite R3 (T -> u32 / u64, usize_as/into == as). Preconditions: well-formed next array, 1 <= start <= len, remaining >= 1."),
    "C23": dict(
        category="proof", technique="contract-based verification with Kani/CBMC (loop-free harnesses over all bit patterns = complete)",
        text="The float successor/predecessor (next_up/next_down, f32 and f64) used to turn strict bounds into closed intervals are proved for every bit pattern: NaN and the respective infinity are fixed points, the result is never on the wrong side, no representable value lies strictly between argument and result, the pair is inverse on finite values. Interval operators, cp_solver and anything through ScalarValue/Arrow are outside reach and not claimed.",
        note="Trusted: Kani/CBMC float comparison semantics. Only the bit-level part of C23's soundness is decided."),
    "C11": dict(
        category="proof", technique="contract-based deductive verification (Verus/SMT, non-linear + bit-vector lemmas, on extracted real functions)",
        text="Unbounded proof that StrengthReducedU64::{new, quotient, partition_indices} route row j to bucket hash[j] mod n, each row exactly once, for all 2^64 hashes and all divisors 1..2^64-1 (Granlund-Montgomery lemma proved in Verus); seeded mutants must all be rejected in the thorough tier.",
        note="Trusted: Verus+Z3; assume_specification of u64::is_power_of_two; usize is 64 bit; preconditions len(hash) <= u32::MAX and indices.len() == divisor (from new_hash_partitioner); extraction rewrites R1/R2/R5."),
    "C17": dict(
        category="proof", technique="contract-based deductive verification: Verus/SMT on the extracted FairSpillPool critical sections (lock elision), Kani/CBMC full-domain loop-free harnesses on the real crate for the other pools and the reservation ledger",
        text="Sequential per-operation contracts: FairSpillPool::{register,unregister,grow,shrink,try_grow,reserved} (Verus: granted iff within the fair share / the remaining pool, failed attempt changes nothing, exact deltas); GreedyMemoryPool, UnboundedMemoryPool, TrackedConsumer, PeakRecordingPool (Kani, full usize domain); MemoryReservation::{grow,try_grow,shrink,try_shrink,free,resize,try_resize,split,take,new_empty,drop} against the pool contract: reserved() == sum of live reservations after every step and zero once all are dropped. Thread interleavings are not covered: the contracts are the linearisation-point specifications, the concurrent step is a stated assumption.",
        note="Trusted: Verus+Z3, Kani/CBMC; rewrite R10 (lock elision) cross-checked by a bounded Kani twin on the unextracted try_grow; atomics sequential; byte counts <= usize::MAX/4 resp. /8; parking_lot slow paths stubbed unreachable; SharedRegistration::drop verified separately and used through a counting stub; error text opaque; try_shrink error path not covered (tool artefact)."),
    "C21": dict(
        category="proof", technique="contract-based verification with Kani/CBMC on the real crate (loop-free harness over full-domain symbolic state, I/O stubbed nondeterministically)",
        text="Per-operation accounting contract of FileSpillWriter::write (Ok => global and per-file usage += len and within limit; Err, from quota or from a failed underlying write => both unchanged) and of set_max_temp_directory_size, for the full u64 domain. The byte-level round trip of spill files is outside reach and not claimed.",
        note="Trusted: Kani/CBMC; atomics sequential; <File as Write>::write stubbed as arbitrary Ok/Err; error formatting stubbed; drop of temp files (syscalls) not covered."),
    "C29": dict(
        category="proof", technique="contract-based deductive verification: Verus/SMT on the extracted with_fetch row-count computation (truncated before the f64 byte-size scaling), Kani/CBMC full-domain harnesses for the Precision<usize> algebra",
        text="A statistic reported as Exact is exact, for the functions that create Exact values from others: Precision<usize>::{add, sub, multiply, min, max, to_inexact, with_estimated_selectivity} (Kani, every usize pair and variant combination: Exact only from Exact inputs and equal to the true mathematical value, never on overflow/saturation) and Statistics::with_fetch's row count (Verus: equals a specification function for which lemma_exact_is_exact proves Exact(v) => exact input and v == rows LIMIT/OFFSET emits x partitions, unwrapped). Per-operator propagation (joins, filters, parquet metadata) is whole-plan and not claimed.",
        note="Trusted: Verus+Z3, Kani/CBMC; rewrites R13/R14/R17 (closure -> verified helper, truncation before float scaling, mut self rename); n_partitions >= 1; column statistics after a cut not verified (symbolic f64 division does not finish in CBMC)."),
    "C40": dict(
        category="proof", technique="contract-based deductive verification (Verus/SMT on the extracted cache state machine against a recency-ordered sequence view; LRU queue behind an assumed contract)",
        text="DefaultCacheState::{get, contains_key, put, remove, evict_entries, clear} and the update_cache_limit critical section are proved to keep accounted size == sum of (key size + value size) over the entries, to stay within the byte limit after every put / limit change, to evict exactly the shortest prefix of least-recently-used entries needed, to make the written key most recent, and never to return an expired entry (expired => removed, None/false). CachedFileMetadataEntry::is_valid_for is checked (Kani, forged entries): valid <=> size and mtime unchanged. Table-drop invalidation as seen by queries is whole-engine and not claimed.",
        note="Trusted: Verus+Z3; ASSUMED LruQueue contract (not checked against lru_queue.rs); size() pure, clone equal, Eq == spec equality; Instant/Duration as integers; memory_limit <= usize::MAX/2; hit counters dropped (R8); rewrites R4,R5,R6,R10,R13,R15."),
    "C47": dict(
        category="proof", technique="contract-based deductive verification (Verus/SMT with non-linear power-of-ten lemmas, on the extracted real function over a type model of DataType/ScalarValue)",
        text="Cast unwrapping of numeric literals (try_cast_numeric_literal, the function unwrap_cast uses to move a cast from a column onto a literal) is proved, for every integer or decimal literal and every integer or decimal target type with any precision and any i8 scale, either to refuse (None) or to return a literal of the target type, within the target's range, that denotes exactly the same number (r * 10^ls == v * 10^ts over the integers), with no arithmetic overflow or division by zero. This is the exactness half of C47 for the literal-rewriting path only; comparison_coercion's choice of common type, operand-order symmetry, IN lists, joins and the Arrow comparison kernels are whole-engine and not claimed.",
        note="Trusted: Verus+Z3; type model of DataType/ScalarValue restricted to the variants the function distinguishes; i128::pow/checked_pow by assume_specification; signed `/` and `%` (unspecified for negatives in the installed Verus) behind div_i128/rem_i128 with truncating semantics (R13); Arrow's MIN/MAX_DECIMAL*_FOR_EACH_PRECISION tables assumed to be +-(10^p - 1); decimal precision within 1..=9/18/38 as precondition. Temporal literals excluded from the claim."),
    "C42": dict(
        category="proof", technique="contract-based verification with Kani/CBMC on the real crate (complete loop-free harnesses for the combinators; bounded whole-tree harnesses listed separately)",
        text="Complete proofs (all cases) of the control contract of TreeNodeRecursion::{visit_children, visit_sibling, visit_parent} and Transformed::{transform_children, transform_sibling, transform_parent, transform_data, update_data, map_data}: closure called iff the documented state, Jump consumed exactly at children, Stop propagates, changed flag is the OR. Bounded stand-ins (one 4-node tree / one 4-leaf container, all decision vectors) for the real apply / visit / transform_down / transform_up / transform_down_up / rewrite, the sibling iterators and the Vec/Option/Box/tuple TreeNodeContainer impls.",
        note="Trusted: Kani/CBMC; error values opaque; induction from combinators to arbitrary trees is a paper argument; concrete node types (Expr, LogicalPlan) not covered."),
}

NOT_APPLICABLE = {
    'C01': 'Whole SQL pipeline vs reference semantics: a differential/relational property over parser, optimizer, planner and Arrow kernels; no function-level contract expresses it.',
    'C02': 'Configuration/schedule independence of whole queries: needs execution under many configs and thread schedules; Kani has no threads, Verus cannot see the engine.',
    'C03': 'Semantic equivalence of plan rewrites: needs a formal semantics of `LogicalPlan`; rules are thousands of lines of enum/`Arc` rewriting outside both verifiers.',
    'C04': 'Expression simplifier value preservation: needs an expression evaluator semantics and Arrow kernels; out of reach.',
    'C07': 'Accumulator split/merge/retract laws: generic Arrow kernels, floats and macro-generated impls; no contract within reach.',
    'C12': 'Hash independence from physical array layout: quantifies over Arrow encodings (dictionary, views, run-end, nested offsets); Arrow arrays are outside Verus and intractable under CBMC.',
    'C13': 'Group-key interning: hashbrown tables + Arrow builders per key type; only the trivial boolean store is reachable, which would not represent the property.',
    'C15': 'schedules; sequential step invariants only would not decide the stated quantifier (stretch unit not built)',
    'C16': 'interleavings and file I/O; only an exit-path contract with stubbed I/O is conceivable (stretch unit not built yet)',
    'C18': 'Memory-limited queries exact or fail cleanly: whole-engine, async, spilling I/O; the accounting parts are claimed under C17/C21.',
    'C19': 'Drop/cancellation releases resources: tokio task lifecycle and schedules; no thread/async support in either verifier.',
    'C20': 'Error propagation through streams: async operators and task fan-out; out of reach.',
    'C22': 'Pruning soundness: symbolic predicate rewriting evaluated by Arrow kernels over statistics arrays; needs expression semantics.',
    'C24': 'Parquet pushdown equivalence: parquet/arrow readers, file I/O.',
    'C25': 'Write/read round-trip of file formats: I/O and third-party encoders.',
    'C26': 'Byte-range scans: `AlignedBoundaryStream` is an async state machine over `object_store`; `repartition_evenly_by_size` is iterator-adapter/itertools code over `PartitionedFile` — outside Verus, and a bounded Kani run through `ObjectMeta`/`String` clones was judged not worth its cost.',
    'C27': 'Partition-value pruning of listings: path/string parsing, object-store listing, expression evaluation.',
    'C28': 'Declared orderings/equivalences hold on data: relates symbolic `EquivalenceProperties` to executed Arrow data; whole-engine.',
    'C30': 'Produced batches conform to schema: whole-plan execution.',
    'C31': 'Dynamic filters: concurrency (generations under RwLock/atomics, schedules) plus whole-query results.',
    'C32': 'Scalar functions independent of argument representation: hundreds of Arrow-kernel functions, strings, unicode.',
    'C33': 'Expression kernels vs row-wise SQL semantics: Arrow compute kernels.',
    'C34': 'ScalarValue/array/cast consistency: huge enum over Arrow types, conversions go through Arrow.',
    'C35': 'Logical plan protobuf round-trip: prost-generated code and the full plan enum.',
    'C36': 'Physical plan protobuf round-trip: same.',
    'C37': 'Substrait round-trip: same, plus external schema.',
    'C38': 'Unparser round-trip: SQL text generation and re-parsing through sqlparser.',
    'C39': 'DML on MemTable: async, Arrow `filter`/`zip` kernels, RwLock state.',
    'C41': 'Bound parameters ≡ literals: plan rewriting + execution.',
    'C43': 'Config text round-trip: macro-generated visitors and string parsing; Verus has no `str` reasoning and the macros cannot be extracted.',
    'C44': 'Schema adaptation: Arrow casts and nested struct rewriting.',
    'C45': 'FFI wrappers: `unsafe extern "C"` vtables (abi_stable); unsafe/FFI outside both tools\' reach.',
    'C46': 'Benchmark result validation: CSV/string formatting and comparison.',
    'C48': 'DataFrame ≡ SQL: whole-engine differential.',
    'C49': 'Catalog DDL and information_schema: async, `DashMap`, SQL planning.',
    'C50': 'Progress over unbounded inputs: liveness over async streams; contracts here decide safety of single calls only.',
    'C51': 'CLI statement splitting/output formats: `str::chars`, `trim`, `format!`, CSV/JSON writers — no string theory in Verus; CBMC on `String`/unicode tables only for 3–4 byte inputs, which would not be evidence.',
    'C52': "Qualified-name round-trip: parsing goes through sqlparser's tokenizer (default `sql` feature); string reasoning.",
    'C53': 'Row-count metrics: per-operator compliance of async streams with `BaselineMetrics`; the counter itself is a single atomic add.',
}
