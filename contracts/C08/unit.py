"""C08 — sort/merge ordering kernels: the per-column comparator of the merge cursors."""
LEVEL = "proof"
VERUS = []
KANI = [dict(package="datafusion-physical-plan", timeout=900, harnesses=[
    dict(name="c08_array_values_compare", module="physical_plan/sorts_cursor.rs", complete=True,
         what="ArrayValues::{is_null, compare, eq, eq_to_previous, get_value, eq_to_single_row_value} over an arbitrary inner order (symbolic values), every SortOptions combination, every null threshold: compare is exactly the requested rule (NULL placement by nulls_first independent of direction; values by the inner order, reversed iff descending), eq <=> Equal, antisymmetric, transitive"),
    dict(name="c08_loser_tree_init_k2_bounded", module="physical_plan/sorts_merge.rs", complete=False, bound="2 streams, symbolic u8 heads (possibly exhausted); round-robin tie breaker disabled", what="real is_gt == the merge order (exhausted last, key, then stream index); after the real init_loser_tree (on a forged SortPreservingMergeStream) loser_tree is a permutation of the streams and loser_tree[0] a minimum"),
    dict(name="c08_loser_tree_update_k2_bounded", module="physical_plan/sorts_merge.rs", complete=False, bound="2 streams, one replay after the winner got an arbitrary new head or was exhausted", what="real update_loser_tree re-establishes permutation + minimum at the root"),
    dict(name="c08_loser_tree_init_k3_bounded", module="physical_plan/sorts_merge.rs", complete=False, bound="3 streams, symbolic u8 heads (possibly exhausted); round-robin tie breaker disabled", what="real is_gt == the merge order (exhausted last, key, then stream index); after the real init_loser_tree (on a forged SortPreservingMergeStream) loser_tree is a permutation of the streams and loser_tree[0] a minimum"),
    dict(name="c08_loser_tree_update_k3_bounded", module="physical_plan/sorts_merge.rs", complete=False, bound="3 streams, one replay after the winner got an arbitrary new head or was exhausted", what="real update_loser_tree re-establishes permutation + minimum at the root"),
    dict(name="c08_loser_tree_init_k4_bounded", module="physical_plan/sorts_merge.rs", complete=False, bound="4 streams, symbolic u8 heads (possibly exhausted); round-robin tie breaker disabled", what="real is_gt == the merge order (exhausted last, key, then stream index); after the real init_loser_tree (on a forged SortPreservingMergeStream) loser_tree is a permutation of the streams and loser_tree[0] a minimum"),
    dict(name="c08_loser_tree_update_k4_bounded", module="physical_plan/sorts_merge.rs", complete=False, bound="4 streams, one replay after the winner got an arbitrary new head or was exhausted", what="real update_loser_tree re-establishes permutation + minimum at the root"),
])]
TRUSTED = ["Kani 0.68 / CBMC 6.11", "inner CursorValues modelled by a symbolic total order on 4 slots (u8 values): the contract is parametric in the inner order"]
ASSUMPTIONS = ["NULL layout of a sorted column: NULLs form a prefix (nulls_first) or suffix, described by null_threshold (established by ArrayValues::new from null_count)",
               "only the comparator is within reach; loser tree, batch building, spilling, multi-level merge, TopK heap are not verified"]
NOT_COVERED = ["loser tree beyond the bounded check (k > 4, round-robin tie-breaker mode, handle_tie)",
               "RowValues / PrimitiveValues / ByteArrayValues inner comparators", "ExternalSorter, TopK, partial sort"]
EXPLANATION = ""
