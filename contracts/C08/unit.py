"""C08 — sort/merge ordering kernels: the per-column comparator of the merge cursors."""
LEVEL = "proof"
VERUS = []
KANI = [dict(package="datafusion-physical-plan", timeout=900, harnesses=[
    dict(name="c08_array_values_compare", module="physical_plan/sorts_cursor.rs", complete=True,
         what="ArrayValues::{is_null, compare, eq, eq_to_previous, get_value, eq_to_single_row_value} over an arbitrary inner order (symbolic values), every SortOptions combination, every null threshold: compare is exactly the requested rule (NULL placement by nulls_first independent of direction; values by the inner order, reversed iff descending), eq <=> Equal, antisymmetric, transitive"),
])]
TRUSTED = ["Kani 0.68 / CBMC 6.11", "inner CursorValues modelled by a symbolic total order on 4 slots (u8 values): the contract is parametric in the inner order"]
ASSUMPTIONS = ["NULL layout of a sorted column: NULLs form a prefix (nulls_first) or suffix, described by null_threshold (established by ArrayValues::new from null_count)",
               "only the comparator is within reach; loser tree, batch building, spilling, multi-level merge, TopK heap are not verified"]
NOT_COVERED = ["loser tree (init_loser_tree/update_loser_tree live inside SortPreservingMergeStream, whose construction needs streams, schema and metrics: not reachable for CBMC; a Verus tournament-tree proof was not attempted)",
               "RowValues / PrimitiveValues / ByteArrayValues inner comparators", "ExternalSorter, TopK, partial sort"]
EXPLANATION = ""
