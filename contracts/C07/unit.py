"""C07 (partial) — aggregate state split/merge/retract: the kernel that emits a prefix of the groups (EmitTo::First index shifting)."""
LEVEL = "proof"
FU = "datafusion/common/src/utils/mod.rs"
FG = "datafusion/expr-common/src/groups_accumulator.rs"
VERUS = [dict(
    name="emit_prefix",
    uses="use vstd::prelude::*;\n",
    prelude="prelude.rs", proofs="proofs.rs", witness="witness.rs", rlimit=30, min_verified=2, twins=[], std_specs=False,
    items=[
        dict(file=FU, path=["fn split_vec_min_alloc"], ret="r",
             edits=[dict(rule="R13", find="vec.drain(0..n).collect()", replace="drain_prefix_collect(vec, n)")],
             contract="""    requires n <= old(vec)@.len(), old(vec)@.len() <= isize::MAX,
    ensures
        // exactly the first n values, in order, are handed out; exactly the others, in order, stay (renumbered from 0)
        r@ == old(vec)@.subrange(0, n as int),
        final(vec)@ == old(vec)@.subrange(n as int, old(vec)@.len() as int),"""),
        dict(file=FG, path=["enum EmitTo"]),
        dict(file=FG, path=["impl EmitTo", "fn take_needed"], wrap="impl EmitTo", ret="r",
             edits=[dict(rule="R20", find="std::mem::take(v)", replace="std::mem::replace(v, Vec::new())")],
             contract="""    requires old(v)@.len() <= isize::MAX, self matches EmitTo::First(n) ==> n <= old(v)@.len(),
    ensures
        // what is emitted followed by what is kept is the old state: nothing lost, duplicated or reordered
        r@ + final(v)@ == old(v)@,
        match self { EmitTo::All => final(v)@.len() == 0, EmitTo::First(n) => r@.len() == n },"""),
    ],
    mutants=[
        dict(name="split_keeps_prefix", item="split_vec_min_alloc", find="std::mem::replace(vec, remaining)", replace="remaining"),
        dict(name="split_off_by_one", item="split_vec_min_alloc", find="vec.split_off(n)", replace="vec.split_off(n - 1)"),
        dict(name="drain_off_by_one", item="split_vec_min_alloc", find="drain_prefix_collect(vec, n)", replace="drain_prefix_collect(vec, n / 2)"),
        dict(name="first_emits_one_more", item="take_needed", find="split_vec_min_alloc(v, *n)", replace="split_vec_min_alloc(v, *n / 2)"),
    ],
)]
KANI = [
    dict(package="datafusion-common", module="common/utils.rs", timeout=900, harnesses=[
        dict(name="c07_split_vec_min_alloc_bounded", complete=False, bound="vectors of <= 5 symbolic values, every n <= len (both strategies: drain+collect / split_off+replace)",
             what="split_vec_min_alloc(v, n): returns the first n values in order, leaves the remaining ones in order"),
    ]),
    dict(package="datafusion-expr-common", module="expr_common/casts.rs", timeout=900, harnesses=[
        dict(name="c07_emit_to_take_needed_bounded", complete=False, bound="vectors of <= 5 symbolic values, EmitTo::All and EmitTo::First(n) for every n <= len",
             what="EmitTo::take_needed: emits exactly the first groups (all / n) in order and keeps the remaining groups' state in order (the index shift of EmitTo::First)"),
    ]),
]
TRUSTED = ["Verus 0.2026.09.13 / Z3", "Kani 0.68 / CBMC 6.11", "vstd specification of Vec::split_off / Vec::len / Vec::new", "ASSUMED specification of std::mem::replace (prelude.rs)", "ASSUMED contract of the iterator expression vec.drain(0..n).collect() (R13, prelude.rs: drain_prefix_collect); the bounded Kani harness runs the real expression for len <= 5", "R20: std::mem::take(v) -> std::mem::replace(v, Vec::new()) (Vec::default() is Vec::new())"]
ASSUMPTIONS = ["preconditions from the call sites: n <= len (emit_to comes from GroupOrdering / the group count), len <= isize::MAX (Vec invariant for non-zero-sized state)", "Kani cross-check of the assumed drain contract is bounded: vector length <= 5"]
NOT_COVERED = ["every accumulator's update / merge / state / retract arithmetic, NullState / accumulate helpers (Arrow bit buffers), partial/final agreement, sliding-window retraction",
               "n > len (caller error), capacity behaviour"]
EXPLANATION = "Emitting the first n groups must hand out exactly the state of groups 0..n and renumber the rest down from zero; every GroupsAccumulator does this through EmitTo::take_needed."
