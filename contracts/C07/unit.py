"""C07 (partial) — aggregate state split/merge/retract: the kernel that emits a prefix of the groups (EmitTo::First index shifting)."""
LEVEL = "model_checking"
VERUS = []
KANI = [
    dict(package="datafusion-common", module="common/utils.rs", timeout=900, harnesses=[
        dict(name="c07_split_vec_min_alloc_bounded", complete=False, bound="vectors of <= 5 symbolic values, every n <= len (both strategies: drain+collect / split_off+replace)",
             what="split_vec_min_alloc(v, n): returns the first n values in order, leaves the remaining ones in order"),
    ]),
    dict(package="datafusion-expr-common", module="expr_common/casts.rs", timeout=900, harnesses=[
        dict(name="c07_emit_to_take_needed_bounded", complete=False, bound="vectors of <= 5 symbolic values, EmitTo::All and EmitTo::First(n) for every n <= len",
             what="EmitTo::take_needed: emits exactly the first groups (all / n) in order and keeps the remaining groups' state in order (the index shift of EmitTo::First)"),
    ]),
]
TRUSTED = ["Kani 0.68 / CBMC 6.11"]
ASSUMPTIONS = ["bounded: vector length <= 5 (the code is oblivious to the element values; the two strategies are selected by n*2 <= len)"]
NOT_COVERED = ["every accumulator's update / merge / state / retract arithmetic, NullState / accumulate helpers (Arrow bit buffers), partial/final agreement, sliding-window retraction",
               "n > len (caller error), capacity behaviour"]
EXPLANATION = "Emitting the first n groups must hand out exactly the state of groups 0..n and renumber the rest down from zero; every GroupsAccumulator does this through EmitTo::take_needed."
