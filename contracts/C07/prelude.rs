// ASSUMED specification of std::mem::replace (the standard library function; not in the installed vstd)
pub assume_specification<T> [std::mem::replace] (dest: &mut T, src: T) -> (r: T)
    ensures *final(dest) == src, r == *old(dest);

/// ASSUMED contract of the iterator expression `vec.drain(0..n).collect()` (R13: iterator adapters are outside the Verus
/// subset): removes the first n elements and returns them in order, the remaining ones keep their order.
/// The bounded Kani harness c07_split_vec_min_alloc_bounded runs the real expression and checks this for len <= 5.
#[verifier::external_body]
fn drain_prefix_collect<T>(vec: &mut Vec<T>, n: usize) -> (r: Vec<T>)
    requires n <= old(vec)@.len(),
    ensures r@ == old(vec)@.subrange(0, n as int), final(vec)@ == old(vec)@.subrange(n as int, old(vec)@.len() as int),
{ unimplemented!() }
