fn witness_split(v: &mut Vec<u64>, n: usize)
    requires n <= old(v)@.len(), old(v)@.len() <= isize::MAX,
{
    let r = split_vec_min_alloc(v, n);
    //@MUSTFAIL
}
fn witness_take_all(v: &mut Vec<u64>)
    requires old(v)@.len() <= isize::MAX,
{
    let e = EmitTo::All;
    let r = e.take_needed(v);
    //@MUSTFAIL
}
fn witness_take_first(v: &mut Vec<u64>, n: usize)
    requires n <= old(v)@.len(), old(v)@.len() <= isize::MAX,
{
    let e = EmitTo::First(n);
    let r = e.take_needed(v);
    //@MUSTFAIL
}
