// (no lemmas needed: the obligations are discharged from the sequence axioms of vstd)
