#!/bin/bash
# usage: tools/run_all_seeds.sh [seed-id ...]   -- runs every seed (or the given ones) through the registered quick check
# in a scratch worktree (tools/try_seed_wt.sh) and writes seeded/RESULTS.md: one line per seed with the exit code
# (1 = VIOLATION reported, 2 = UNDECIDED, 0 = not detected) and the first reported obligation.
cd /verif
out=seeded/RESULTS.md
seeds=("$@")
if [ ${#seeds[@]} -eq 0 ]; then seeds=($(ls seeded | grep -E '^C[0-9]+-[a-z]$')); fi
{
echo "# Seeded changes against the registered quick checks"
echo
echo "(written by tools/run_all_seeds.sh on $(date -u +%Y-%m-%dT%H:%MZ); /repo HEAD $(git -C /repo rev-parse --short HEAD); each patch applied in a scratch worktree, /repo untouched)"
echo
echo "| seed | property | exit | first line reported |"
echo "|------|----------|------|---------------------|"
} > $out.tmp
for s in "${seeds[@]}"; do
  pid=${s%%-*}
  log=$(mktemp)
  KEEP_WT_TARGET=1 tools/try_seed_wt.sh seeded/$s/patch.diff $pid quick > $log 2>&1
  rc=$(grep -o "^rc=[0-9]*" $log | tail -1 | cut -d= -f2)
  line=$(grep -E "^(VIOLATION|UNDECIDED|PASS|KNOWN-FINDING)" $log | head -1 | cut -c1-170 | sed 's/|/\\|/g')
  echo "| $s | $pid | ${rc:-?} | $line |" >> $out.tmp
  echo "$s rc=${rc:-?} $line"
  rm -f $log
done
if [ $# -gt 0 ] && [ -f $out ]; then
  # partial run: replace / append the rows of the given seeds in the existing table
  for s in "${seeds[@]}"; do grep -v "^| $s |" $out > $out.keep; mv $out.keep $out; done
  grep -E "^\| C[0-9]+-[a-z] \|" $out.tmp >> $out; rm -f $out.tmp
else
  mv $out.tmp $out
fi
rm -rf /verif/.cache/kani-target-*
