#!/bin/bash
# usage: tools/confirm_seed.sh <seed-dir> <cargo-package> <existing-test-filter> <demo-test-filter>
# Confirms in a scratch worktree: (1) patch compiles and the existing tests (filter) pass with it,
# (2) demo fails with the patch, (3) demo passes without it.  Writes <seed-dir>/confirm.log
set -u
seed=$(realpath "$1"); pkg=$2; filt=$3; demo=$4
wt=/tmp/wt-confirm-$$
export CARGO_TARGET_DIR=/tmp/confirm-target CARGO_NET_OFFLINE=true
log=$seed/confirm.log; : > "$log"
git -C /repo worktree add -q "$wt" HEAD || exit 9
cd "$wt" || exit 9
git apply "$seed/patch.diff" || { echo "patch does not apply" | tee -a "$log"; exit 9; }
echo "== existing tests with patch ($pkg $filt)" >> "$log"
cargo test --offline -q -p "$pkg" --lib "$filt" 2>&1 | grep -E "^test result|FAILED|panicked|error(\[|:)" | head -20 >> "$log"
git apply "$seed/demo.diff" || { echo "demo does not apply" | tee -a "$log"; }
echo "== demo with patch ($demo)" >> "$log"
cargo test --offline -q -p "$pkg" --lib "$demo" 2>&1 | grep -E "^test result|FAILED|panicked|error(\[|:)" | head -20 >> "$log"
git apply -R "$seed/patch.diff"
echo "== demo without patch ($demo)" >> "$log"
cargo test --offline -q -p "$pkg" --lib "$demo" 2>&1 | grep -E "^test result|FAILED|panicked|error(\[|:)" | head -20 >> "$log"
cd /; git -C /repo worktree remove --force "$wt"
cat "$log"
