#!/bin/bash
# usage: tools/try_seed_wt.sh <patch.diff> <PID> [tier]
# like try_seed.sh but leaves /repo alone: the patch is applied in a scratch worktree and the check runs with
# VERIF_REPO pointing at it (Verus units re-extract from there; Kani rebuilds the crates of that path).
set -u
patch=$(realpath "$1"); pid=$2; tier=${3:-quick}
wt=/tmp/wt-seed   # fixed path: its Kani build directory (engine/kani.py target_dir) is reused between trials; one trial at a time
[ -e "$wt" ] && { echo "another trial is running ($wt exists)"; exit 9; }
git -C /repo worktree add -q --detach "$wt" HEAD || exit 9
( cd "$wt" && git apply "$patch" ) || { echo "patch does not apply"; git -C /repo worktree remove --force "$wt"; exit 9; }
cd /verif && VERIF_REPO="$wt" timeout 3000 ./check "$pid" --tier "$tier"; rc=$?
git -C /repo worktree remove --force "$wt"
# the scratch path has its own Kani build directory (engine/kani.py target_dir); KEEP_WT_TARGET=1 keeps it for the next trial
[ "${KEEP_WT_TARGET:-0}" = 1 ] || rm -rf /verif/.cache/kani-target-*
echo "rc=$rc"
exit $rc
