#!/bin/bash
# usage: tools/try_seed.sh <patch.diff> <PID> [tier]   -- applies the patch to /repo, runs the check, reverts
set -u
patch=$1; pid=$2; tier=${3:-quick}
cd /repo || exit 9
if ! git diff --quiet; then echo "repo dirty"; exit 9; fi
git apply "$patch" || { echo "patch does not apply"; exit 9; }
cd /verif && timeout 3000 ./check "$pid" --tier "$tier"; rc=$?
cd /repo && git checkout -- . 
echo "rc=$rc"
exit $rc
