"""Mechanical extraction of real Rust items from /repo and contract splicing.

The scanner is brace/string/char/comment aware.  It never re-types code: an
extracted item is the *exact byte span* of the item in the repository file;
every later change is one of
  * a logged rewrite (rule id R1..R11 of DESIGN.md section 2.2) given as a
    literal or regex replacement that must match the stated number of times,
  * a contract clause inserted between signature and body,
  * a loop invariant inserted after a loop header (keyed by loop ordinal),
  * a proof block inserted at a positional anchor.
A lost anchor raises Undecided (exit 2), never an alarm.
"""
import difflib
import hashlib
import re


class Undecided(Exception):
    """machinery cannot decide (lost anchor, unsupported construct...)"""


# --------------------------------------------------------------------------
# masking: same length as the source, comments and literal contents blanked
# --------------------------------------------------------------------------
def mask(src: str) -> str:
    out = list(src)
    n = len(src)
    i = 0

    def blank(a, b):
        for k in range(a, b):
            if out[k] != "\n":
                out[k] = " "

    while i < n:
        c = src[i]
        if c == "/" and i + 1 < n and src[i + 1] == "/":
            j = src.find("\n", i)
            j = n if j < 0 else j
            blank(i, j)
            i = j
        elif c == "/" and i + 1 < n and src[i + 1] == "*":
            depth = 1
            j = i + 2
            while j < n and depth:
                if src.startswith("/*", j):
                    depth += 1
                    j += 2
                elif src.startswith("*/", j):
                    depth -= 1
                    j += 2
                else:
                    j += 1
            blank(i, j)
            i = j
        elif c == '"' or (c in "br" and re.match(r'(b?r#*"|b")', src[i:i + 12]) and
                          (i == 0 or not (src[i - 1].isalnum() or src[i - 1] == "_"))):
            m = re.match(r'(b?)(r(#*))?"', src[i:])
            if not m:
                i += 1
                continue
            start = i + m.end()
            if m.group(2) is not None:  # raw string
                term = '"' + m.group(3)
                j = src.find(term, start)
                j = n if j < 0 else j
                blank(start, j)
                i = j + len(term)
            else:
                j = start
                while j < n and src[j] != '"':
                    j += 2 if src[j] == "\\" else 1
                blank(start, min(j, n))
                i = j + 1
        elif c == "'":
            # char literal or lifetime
            m = re.match(r"'(\\.[^']*|[^'\\])'", src[i:])
            if m:
                blank(i + 1, i + m.end() - 1)
                i += m.end()
            else:
                i += 1
        else:
            i += 1
    return "".join(out)


def match_brace(masked: str, open_pos: int) -> int:
    """index of the brace closing the one at open_pos"""
    assert masked[open_pos] == "{", masked[open_pos:open_pos + 20]
    depth = 0
    for k in range(open_pos, len(masked)):
        ch = masked[k]
        if ch == "{":
            depth += 1
        elif ch == "}":
            depth -= 1
            if depth == 0:
                return k
    raise Undecided("unbalanced braces")


def _depth0_positions(masked, start, end):
    """yield (pos) of every char in [start,end) that is at brace depth 0"""
    depth = 0
    for k in range(start, end):
        ch = masked[k]
        if ch == "{":
            depth += 1
        elif ch == "}":
            depth -= 1
        elif depth == 0:
            yield k


def _collapse(s):
    return re.sub(r"\s+", " ", s).strip()


_KINDS = ("fn", "struct", "enum", "trait", "mod", "const", "static", "type", "union")


def _safe_fullmatch(pat, s):
    try:
        return re.fullmatch(pat, s) is not None
    except re.error:
        return False


def find_in_scope(src, masked, start, end, spec):
    """Locate item `spec` ("fn name", "impl <header>", "enum Name", ...) among the
    items directly inside [start,end).  Returns dict(attr_start, sig_start,
    body_open, end) with `end` exclusive (after the closing brace or `;`)."""
    kind, _, name = spec.partition(" ")
    if spec.startswith("impl"):
        kind = "impl"
    depth = 0
    k = start
    cands = []
    if kind == "impl":
        pat = re.compile(r"\bimpl\b")
    elif kind in _KINDS:
        pat = re.compile(r"\b%s\s+%s\b" % (kind, re.escape(name)))
    else:
        raise Undecided("bad item spec %r" % spec)
    # walk at depth 0
    seg_start = start
    pos = start
    pd = 0
    while pos < end:
        ch = masked[pos]
        if ch in "([":
            pd += 1
        elif ch in ")]":
            pd -= 1
        elif ch == "{":
            if depth == 0:
                for m in pat.finditer(masked, seg_start, pos):
                    cands.append((m.start(), pos))
            depth += 1
        elif ch == "}":
            depth -= 1
            if depth == 0:
                seg_start = pos + 1
        elif ch == ";" and depth == 0 and pd == 0:
            for m in pat.finditer(masked, seg_start, pos):
                cands.append((m.start(), -pos))  # negative => item ends with ';'
            seg_start = pos + 1
        pos += 1
    found = []
    for kw, opener in cands:
        if opener is not None and opener < 0:
            hdr_end = -opener
            hdr = _collapse(masked[kw:hdr_end])
            item_end = hdr_end + 1
            body_open = None
        else:
            # header runs up to the first '{' at paren depth 0
            body_open = opener
            hdr = _collapse(masked[kw:body_open])
            item_end = match_brace(masked, body_open) + 1
        if kind == "impl":
            want = _collapse(spec)
            if hdr != want and not _safe_fullmatch(want, hdr):
                # allow where-clauses / generics to be omitted when spec is regex
                continue
        found.append((kw, body_open, item_end))
    if len(found) != 1:
        raise Undecided("item %r found %d times" % (spec, len(found)))
    kw, body_open, item_end = found[0]
    # signature start: beginning of the line of the keyword (covers pub/async/unsafe)
    line_start = src.rfind("\n", 0, kw) + 1
    sig_start = line_start
    # attribute/doc start: walk upwards over lines that are attrs / doc comments
    attr_start = sig_start
    while True:
        prev_end = attr_start - 1
        if prev_end <= start:
            break
        prev_start = src.rfind("\n", 0, prev_end) + 1
        line = src[prev_start:prev_end].strip()
        if line.startswith("#[") or line.startswith("///") or line.startswith("//!"):
            attr_start = prev_start
        elif line.endswith("]") or line.endswith(")]"):
            # tail of a multi-line attribute: look further for its '#['
            q = prev_start
            ok = False
            for _ in range(12):
                l2 = src[q:src.find("\n", q)].strip()
                if l2.startswith("#["):
                    ok = True
                    break
                q2 = src.rfind("\n", 0, q - 1) + 1
                if q2 >= q:
                    break
                q = q2
            if ok and q >= start:
                attr_start = q
            else:
                break
        else:
            break
    return dict(attr_start=attr_start, sig_start=sig_start, kw=kw,
                body_open=body_open, end=item_end)


def locate(src, path):
    """path = ["impl X", "fn f"] ; returns location dict of the innermost item"""
    masked = mask(src)
    start, end = 0, len(src)
    loc = None
    for spec in path:
        loc = find_in_scope(src, masked, start, end, spec)
        if loc["body_open"] is not None:
            start, end = loc["body_open"] + 1, loc["end"] - 1
    return loc


# --------------------------------------------------------------------------
# positional structure of one extracted fn
# --------------------------------------------------------------------------
_LOOP_RE = re.compile(r"(?<![\w.])(for|while|loop)\b")


def fn_structure(text):
    """text = item text starting at the signature.  Returns dict with
    body_open, body_close, loops=[(kw_pos, body_open, body_close)], arrow"""
    m = mask(text)
    # body '{' : first '{' at paren/bracket/angle-agnostic depth 0 after the fn name's param list
    depth = 0
    body_open = None
    for k, ch in enumerate(m):
        if ch in "([":
            depth += 1
        elif ch in ")]":
            depth -= 1
        elif ch == "{" and depth == 0:
            body_open = k
            break
    if body_open is None:
        raise Undecided("fn without body")
    body_close = match_brace(m, body_open)
    loops = []
    for lm in _LOOP_RE.finditer(m, body_open, body_close):
        kw = lm.start()
        if lm.group(1) == "for" and re.match(r"for\s*<", m[kw:kw + 8]):
            continue
        d = 0
        bo = None
        for k in range(lm.end(), body_close):
            ch = m[k]
            if ch in "([":
                d += 1
            elif ch in ")]":
                d -= 1
            elif ch == "{" and d == 0:
                bo = k
                break
            elif ch == ";" and d == 0:
                break
        if bo is None:
            continue
        loops.append((kw, bo, match_brace(m, bo)))
    # return arrow in signature: the `->` that directly follows the parameter list (generics and where
    # clauses may contain `Fn(..) -> T` arrows of their own)
    arrow = None
    fm = re.search(r"\bfn\s+\w+\s*", m[:body_open])
    k = fm.end() if fm else 0
    if k < body_open and m[k] == "<":
        ad = 0
        while k < body_open:
            if m.startswith("->", k):
                k += 2
                continue
            if m[k] == "<":
                ad += 1
            elif m[k] == ">":
                ad -= 1
                if ad == 0:
                    k += 1
                    break
            k += 1
    while k < body_open and m[k] != "(":
        k += 1
    d = 0
    while k < body_open:
        ch = m[k]
        if ch in "([":
            d += 1
        elif ch in ")]":
            d -= 1
            if d == 0:
                k += 1
                break
        k += 1
    am = re.match(r"\s*->", m[k:body_open])
    if am:
        arrow = k + am.end() - 2
    where = None
    wm = None
    for wm in re.finditer(r"\bwhere\b", m[:body_open]):
        pass
    if wm is not None and (arrow is None or wm.start() > arrow):
        where = wm.start()
    return dict(masked=m, body_open=body_open, body_close=body_close, loops=loops,
                arrow=arrow, where=where)


def stmt_ends(masked, open_pos, close_pos):
    """positions just after each top-level `;` of the block (open_pos, close_pos)"""
    out = []
    d = 0
    for k in range(open_pos + 1, close_pos):
        ch = masked[k]
        if ch in "([{":
            d += 1
        elif ch in ")]}":
            d -= 1
        elif ch == ";" and d == 0:
            out.append(k + 1)
    return out


def desugar_let_chains(text, log, item_name):
    """R4 (generic): `if let P = E && C { B }` (no else) -> `if let P = E { if C { B } }`.
    Works on the masked text, so strings/comments are never touched; the body is left as is."""
    n_done = 0
    pos = 0
    while True:
        m = mask(text)
        mt = re.search(r"\bif\s+let\b", m[pos:])
        if not mt:
            break
        start = pos + mt.start()
        # find the block-opening brace at paren depth 0
        d = 0
        bo = None
        amp = None
        k = pos + mt.end()
        while k < len(m):
            ch = m[k]
            if ch in "([":
                d += 1
            elif ch in ")]":
                d -= 1
            elif ch == "{" and d == 0:
                bo = k
                break
            elif d == 0 and m.startswith("&&", k) and amp is None:
                amp = k
            elif ch == ";" and d == 0:
                break
            k += 1
        if bo is None or amp is None:
            pos = pos + mt.end()
            continue
        bc = match_brace(m, bo)
        after = m[bc + 1:bc + 40].lstrip()
        if after.startswith("else"):
            raise Undecided("%s: let-chain with else branch is outside rewrite R4" % item_name)
        head = text[start:amp].rstrip()
        cond = text[amp + 2:bo].strip()
        body = text[bo:bc + 1]
        new = head + " { if " + cond + " " + body + " }"
        text = text[:start] + new + text[bc + 1:]
        n_done += 1
        pos = start + len(head) + 3
    if n_done:
        log.append(dict(item=item_name, rule="R4", before="%d let-chain(s)" % n_done, after="nested if", times=n_done))
    return text


def _elim_continue_block(body, counter):
    """body = text strictly between the braces of a block.  First top-level `if C { continue; }` (no else) or
    `let P = E else { continue; };` is replaced by a guard around the remainder of the block (recursively)."""
    m = mask(body)
    depth = 0
    k = 0
    n = len(m)
    while k < n:
        ch = m[k]
        if ch in "{([":
            depth += 1
        elif ch in "})]":
            depth -= 1
        elif depth == 0 and (k == 0 or not (m[k - 1].isalnum() or m[k - 1] in "_.")):
            if m.startswith("if", k) and not (m[k + 2].isalnum() or m[k + 2] == "_") and not re.match(r"if\s+let\b", m[k:]):
                # previous token must not be `else`
                if re.search(r"\belse\s*$", m[:k]):
                    k += 2
                    continue
                # condition up to the block brace at paren depth 0
                d = 0
                bo = None
                for q in range(k + 2, n):
                    c2 = m[q]
                    if c2 in "([":
                        d += 1
                    elif c2 in ")]":
                        d -= 1
                    elif c2 == "{" and d == 0:
                        bo = q
                        break
                    elif c2 == ";" and d == 0:
                        break
                if bo is not None:
                    bc = match_brace(m, bo)
                    inner = re.sub(r"//[^\n]*", "", body[bo + 1:bc]).strip()
                    after = re.match(r"\s*else\b", m[bc + 1:])
                    if inner == "continue;" and not after:
                        cond = body[k + 2:bo].strip()
                        rest = _elim_continue_block(body[bc + 1:], counter)
                        counter[0] += 1
                        return body[:k] + "if !(%s) {%s}\n" % (cond, rest.rstrip() + "\n")
                    k = bc + 1
                    continue
            if m.startswith("let", k) and not (m[k + 3].isalnum() or m[k + 3] == "_"):
                # let PAT = EXPR else { continue; };
                d = 0
                semi = None
                else_pos = None
                q = k + 3
                while q < n:
                    c2 = m[q]
                    if c2 in "([{":
                        if c2 == "{" and d == 0 and else_pos is not None and q >= else_pos:
                            bc = match_brace(m, q)
                            inner = re.sub(r"//[^\n]*", "", body[q + 1:bc]).strip()
                            tail = re.match(r"\s*;", m[bc + 1:])
                            if inner == "continue;" and tail:
                                lhs = body[k + 3:else_pos].strip()
                                rest = _elim_continue_block(body[bc + 1 + tail.end():], counter)
                                counter[0] += 1
                                return body[:k] + "if let %s {%s}\n" % (lhs, rest.rstrip() + "\n")
                            break
                        d += 1
                    elif c2 in ")]}":
                        d -= 1
                        if d < 0:
                            break
                    elif c2 == ";" and d == 0:
                        break
                    elif d == 0 and m.startswith("else", q) and not (m[q - 1].isalnum() or m[q - 1] == "_") \
                            and not (m[q + 4].isalnum() or m[q + 4] == "_"):
                        else_pos = q
                        q += 4
                        continue
                    q += 1
        k += 1
    return body


def eliminate_continue(text, log, item_name):
    """R18 (generic): inside every `for` loop of the fn, `if C { continue; } REST` -> `if !(C) { REST }` and
    `let P = E else { continue; }; REST` -> `if let P = E { REST }` (REST = remainder of the enclosing block).
    `continue` in `for` loops is outside the Verus subset; a `continue` left anywhere else makes the unit undecided."""
    total = [0]
    done = 0
    while True:
        st = fn_structure(text)
        fors = [l for l in st["loops"] if st["masked"].startswith("for", l[0])]
        if done >= len(fors):
            break
        kw, bo, bc = fors[done]
        new_body = _elim_continue_block(text[bo + 1:bc], total)
        text = text[:bo + 1] + new_body + text[bc:]
        done += 1
    if total[0]:
        log.append(dict(item=item_name, rule="R18", before="if C { continue; } REST / let P = E else { continue; }; REST",
                        after="if !(C) { REST } / if let P = E { REST }", times=total[0]))
    return text



def _split_top_commas(m, start, end):
    """positions of top-level commas in masked text m[start:end]"""
    out = []
    d = 0
    for k in range(start, end):
        ch = m[k]
        if ch in "([{":
            d += 1
        elif ch in ")]}":
            d -= 1
        elif ch == "," and d == 0:
            out.append(k)
        elif ch == "|" and d == 0:
            pass
    return out


def desugar_option_adapters(text, log, item_name):
    """R19 (generic): at `let` statements, closure-taking Option adapters are written as the `match` they abbreviate:
         let X = RECV.map_or(D, |P| B);      -> let X = match RECV { Some(P) => B, None => D };
         let X = RECV.map(|P| B);            -> let X = match RECV { Some(P) => Some(B), None => None };
         let X = RECV.is_some_and(|P| B);    -> let X = match RECV { Some(P) => B, None => false };
       (closures in Option adapters are outside the Verus subset).  Only closures without `return`/`?` are rewritten."""
    n_done = 0
    guard = 0
    while guard < 50:
        guard += 1
        m = mask(text)
        hit = None
        for mt in re.finditer(r"\.(map_or|map|is_some_and)\(", m):
            call_open = mt.end() - 1
            # closing paren
            d = 0
            close = None
            for k in range(call_open, len(m)):
                if m[k] in "([{":
                    d += 1
                elif m[k] in ")]}":
                    d -= 1
                    if d == 0:
                        close = k
                        break
            if close is None or not re.match(r"\s*;", m[close + 1:]):
                continue
            # statement start: nearest preceding `let` with only balanced text in between and no `;`
            stmt = None
            for lm in re.finditer(r"\blet\s+(?:mut\s+)?(\w+)(?:\s*:\s*[^=;]+)?\s*=\s*", m[:mt.start()]):
                stmt = lm
            if stmt is None:
                continue
            between = m[stmt.end():mt.start()]
            if ";" in between or between.count("(") != between.count(")") or between.count("{") != between.count("}"):
                continue
            kind = mt.group(1)
            commas = _split_top_commas(m, call_open + 1, close)
            if kind == "map_or":
                if len(commas) < 1:
                    continue
                default = text[call_open + 1:commas[0]].strip()
                clo = text[commas[0] + 1:close].strip().rstrip(",").strip()
            else:
                default = None
                clo = text[call_open + 1:close].strip().rstrip(",").strip()
            cm = re.match(r"\|\s*([^|]*?)\s*\|\s*(.*)$", clo, re.S)
            if not cm:
                continue
            pat, body = cm.group(1), cm.group(2).strip()
            if re.search(r"\breturn\b|\?", mask(body)):
                continue
            recv = text[stmt.end():mt.start()].strip()
            recv = re.sub(r"\s*\n\s*", "", recv)
            if kind == "map_or":
                repl = "match %s { Some(%s) => { %s }, None => { %s } }" % (recv, pat, body, default)
            elif kind == "map":
                repl = "match %s { Some(%s) => Some({ %s }), None => None }" % (recv, pat, body)
            else:
                repl = "match %s { Some(%s) => { %s }, None => false }" % (recv, pat, body)
            hit = (stmt.end(), close + 1, repl)
            break
        if hit is None:
            break
        text = text[:hit[0]] + hit[2] + text[hit[1]:]
        n_done += 1
    if n_done:
        log.append(dict(item=item_name, rule="R19", before="let X = RECV.{map_or,map,is_some_and}(.., |P| B);",
                        after="let X = match RECV { Some(P) => .., None => .. };", times=n_done))
    return text



def apply_edits(text, edits, log, item_name):
    """literal / regex rewrites with mandatory match counts"""
    for e in edits or []:
        rule = e.get("rule", "R?")
        if e.get("letchains"):
            text = desugar_let_chains(text, log, item_name)
            continue
        if e.get("elim_continue"):
            text = eliminate_continue(text, log, item_name)
            continue
        if e.get("option_adapters"):
            text = desugar_option_adapters(text, log, item_name)
            continue
        count = e.get("count", 1)
        if "find" in e:
            n = text.count(e["find"])
            if n != count:
                raise Undecided("rewrite %s in %s: anchor %r found %d times (want %d)"
                                % (rule, item_name, e["find"][:60], n, count))
            text = text.replace(e["find"], e["replace"])
            log.append(dict(item=item_name, rule=rule, before=e["find"], after=e["replace"], times=n))
        else:
            rx = re.compile(e["regex"], re.S)
            ms = list(rx.finditer(text))
            if count != "any" and len(ms) != count:
                raise Undecided("rewrite %s in %s: regex %r matched %d times (want %s)"
                                % (rule, item_name, e["regex"][:60], len(ms), count))
            if ms:
                log.append(dict(item=item_name, rule=rule, before=[x.group(0) for x in ms][:8],
                                after=e["replace"], times=len(ms)))
            text = rx.sub(e["replace"], text)
    return text


def strip_attrs_and_docs(text, log, item_name):
    """R5: drop doc comments and #[inline]/#[expect]/#[allow]/#[cfg(test)]-style attrs"""
    lines = text.split("\n")
    out = []
    dropped = 0
    for ln in lines:
        s = ln.strip()
        if s.startswith("///") or s.startswith("//!"):
            dropped += 1
            continue
        if re.fullmatch(r"#\[(inline(\(\w+\))?|expect\(.*\)|allow\(.*\)|must_use|cold|track_caller|default)\]", s):
            dropped += 1
            continue
        out.append(ln)
    if dropped:
        log.append(dict(item=item_name, rule="R5", before="%d doc/attr lines" % dropped, after="", times=dropped))
    return "\n".join(out)


def splice_fn(text, item, log):
    """insert contract / ret name / loop invariants / proof blocks into fn text"""
    name = item["name"]
    st = fn_structure(text)
    ins = []  # (pos, text, priority)

    def add(pos, s, prio=0):
        ins.append((pos, prio, s))

    if item.get("ret"):
        if st["arrow"] is None:
            raise Undecided("%s: no return type to name" % name)
        a = st["arrow"] + 2
        b = st["where"] if st["where"] is not None else st["body_open"]
        ty = text[a:b].strip()
        # replace type text by (r: T)
        ins.append(("replace", a, b, " (%s: %s)\n" % (item["ret"], ty)))
    if item.get("contract"):
        add(st["body_open"], "\n" + item["contract"].rstrip() + "\n", 0)
    for ordn, inv in (item.get("loops") or {}).items():
        ordn = int(ordn)
        if ordn >= len(st["loops"]):
            raise Undecided("%s: loop ordinal %d not found (%d loops)" % (name, ordn, len(st["loops"])))
        add(st["loops"][ordn][1], "\n" + inv.rstrip() + "\n", 0)
    if item.get("loop_count") is not None and item["loop_count"] != len(st["loops"]):
        raise Undecided("%s: expected %d loops, found %d" % (name, item["loop_count"], len(st["loops"])))
    for p in item.get("proofs") or []:
        where = p["at"]
        if where == "body_start":
            add(st["body_open"] + 1, "\n" + p["text"] + "\n", 1)
        elif where == "body_end":
            add(st["body_close"], "\n" + p["text"] + "\n", 1)
        elif where.startswith("loop_body_start:"):
            add(st["loops"][int(where.split(":")[1])][1] + 1, "\n" + p["text"] + "\n", 1)
        elif where.startswith("loop_body_end:"):
            add(st["loops"][int(where.split(":")[1])][2], "\n" + p["text"] + "\n", 1)
        elif where.startswith("after_loop:"):
            add(st["loops"][int(where.split(":")[1])][2] + 1, "\n" + p["text"] + "\n", 1)
        elif where.startswith("before_loop:"):
            kw = st["loops"][int(where.split(":")[1])][0]
            # include a loop label if present
            add(kw, "\n" + p["text"] + "\n", 1)
        elif where.startswith("after_stmt:"):
            ends = stmt_ends(st["masked"], st["body_open"], st["body_close"])
            k = int(where.split(":")[1])
            if k >= len(ends):
                raise Undecided("%s: statement ordinal %d not found" % (name, k))
            add(ends[k], "\n" + p["text"] + "\n", 1)
        elif where.startswith("after_stmt_in_loop:"):
            _, l, k = where.split(":")
            lp = st["loops"][int(l)]
            ends = stmt_ends(st["masked"], lp[1], lp[2])
            if int(k) >= len(ends):
                raise Undecided("%s: statement ordinal %s in loop %s not found" % (name, k, l))
            add(ends[int(k)], "\n" + p["text"] + "\n", 1)
        elif where.startswith("after_each:"):
            # the same proof text after EVERY match of a regex (e.g. a statement repeated in several match arms)
            rx = re.compile(where.split(":", 1)[1])
            ms = list(rx.finditer(text))
            if len(ms) != p.get("count", len(ms)) or not ms:
                raise Undecided("%s: proof anchor regex %r matched %d times" % (name, where[:60], len(ms)))
            for mm in ms:
                add(mm.end(), "\n" + p["text"] + "\n", 1)
        elif where.startswith("after:") or where.startswith("before:"):
            mode, lit = where.split(":", 1)
            n = text.count(lit)
            if n != 1:
                raise Undecided("%s: proof anchor %r found %d times" % (name, lit[:60], n))
            pos = text.find(lit)
            add(pos + (len(lit) if mode == "after" else 0), "\n" + p["text"] + "\n", 1)
        else:
            raise Undecided("bad proof anchor %r" % where)
    # apply, from the end
    repl = [x for x in ins if x[0] == "replace"]
    pts = [x for x in ins if x[0] != "replace"]
    allops = [(a, 2, ("replace", a, b, s)) for (_, a, b, s) in repl] + [(pos, prio, ("ins", s)) for pos, prio, s in pts]
    allops.sort(key=lambda t: (t[0], t[1]), reverse=True)
    for pos, _prio, op in allops:
        if op[0] == "ins":
            text = text[:pos] + op[1] + text[pos:]
        else:
            _, a, b, s = op
            text = text[:a] + s + text[b:]
    return text


def extract_item(repo, item, log):
    """returns dict(text, file, line_start, line_end, sha256, diff, original)"""
    path = item["file"]
    with open("%s/%s" % (repo, path), encoding="utf-8") as fh:
        src = fh.read()
    try:
        loc = locate(src, item["path"])
    except Undecided as e:
        # an `optional` item (a helper the function under contract may or may not call) that is
        # absent from the tree is skipped: if the function still calls it, the unit does not compile
        # and the check is undecided; nothing is assumed about it
        if item.get("optional") and "found 0 times" in str(e):
            log.append(dict(item=item["path"][-1], rule="optional-absent", before="", after="", times=0))
            return None
        raise
    name = item.get("name") or item["path"][-1].split(" ", 1)[1]
    item = dict(item, name=name)
    original = src[loc["sig_start"]:loc["end"]]
    line_start = src.count("\n", 0, loc["sig_start"]) + 1
    line_end = src.count("\n", 0, loc["end"]) + 1
    frag = item.get("fragment")
    if frag:
        # FRAGMENT: a statement sequence of the located function (from the literal `start` anchor to the end of the
        # literal `end` anchor, both inclusive, each occurring exactly once) wrapped into a synthetic fn whose signature
        # (the fragment's free variables with their types) is stated in the unit.  The statements are the repository text.
        body = original
        if body.count(frag["start"]) != 1 or body.count(frag["end"]) != 1:
            raise Undecided("fragment anchors of %s found %d / %d times" % (name, body.count(frag["start"]), body.count(frag["end"])))
        a = body.index(frag["start"])
        b = body.index(frag["end"]) + len(frag["end"])
        if b <= a:
            raise Undecided("fragment anchors of %s out of order" % name)
        line_start = src.count("\n", 0, loc["sig_start"] + a) + 1
        line_end = src.count("\n", 0, loc["sig_start"] + b) + 1
        piece = body[a:b]
        log.append(dict(item=name, rule="FRAGMENT", before="statements %d..%d of %s" % (line_start, line_end, item["path"][-1]),
                        after=frag["signature"], times=1))
        original = piece
        name = frag["name"]
        item = dict(item, name=name)
        sha = hashlib.sha256(original.encode()).hexdigest()
        text = "%s {\n        %s\n        %s\n}" % (frag["signature"], piece, frag.get("tail", ""))
        text = apply_edits(text, item.get("edits"), log, name)
        text = splice_fn(text, item, log)
        diff = "".join(difflib.unified_diff(original.splitlines(True), text.splitlines(True),
                                            "repo:%s:%d" % (path, line_start), "unit:%s" % name, n=1))
        return dict(name=name, text=text, file=path, line_start=line_start, line_end=line_end,
                    sha256=sha, diff=diff, original=original)
    sha = hashlib.sha256(original.encode()).hexdigest()
    text = strip_attrs_and_docs(original, log, name)
    if item.get("strip_vis", True):
        # R12: item-level visibility dropped (single-file unit: no effect on semantics)
        m = re.match(r"(\s*)pub(\([a-z ]+\))?\s+", text)
        if m:
            log.append(dict(item=name, rule="R12", before=m.group(0).strip(), after="", times=1))
            text = m.group(1) + text[m.end():]
    text = apply_edits(text, item.get("edits"), log, name)
    if item.get("truncate_at"):
        # R14: the function is cut at a statement boundary; the dropped tail must not touch the
        # state the contract speaks about (checked syntactically), the stated tail expression is appended
        t = item["truncate_at"]
        anchor = t["anchor"]
        if text.count(anchor) != 1:
            raise Undecided("truncate anchor %r found %d times in %s" % (anchor[:50], text.count(anchor), name))
        pos = text.find(anchor)
        dropped = text[pos:]
        for bad in t.get("dropped_must_not_contain", []):
            if bad in dropped:
                raise Undecided("%s: dropped tail contains %r: truncation R14 not applicable" % (name, bad))
        log.append(dict(item=name, rule="R14", before="%d bytes from %r to the end of the function" % (len(dropped), anchor[:60]),
                        after=t["tail"], times=1))
        text = text[:pos] + t["tail"]
    kind = item["path"][-1].split(" ")[0]
    if kind == "fn":
        text = splice_fn(text, item, log)
    if item.get("prefix"):
        text = item["prefix"] + text
    if item.get("suffix"):
        # e.g. the `;` of a `const X: T = T { .. };` item, whose located span ends at the closing brace
        text = text + item["suffix"]
    wrap = item.get("wrap")
    if wrap:
        text = "%s {\n%s\n}" % (wrap, text)
    diff = "".join(difflib.unified_diff(original.splitlines(True), text.splitlines(True),
                                        "repo:%s:%d" % (path, line_start), "unit:%s" % name, n=1))
    return dict(name=name, text=text, file=path, line_start=line_start, line_end=line_end,
                sha256=sha, diff=diff, original=original)
