#!/usr/bin/env python3
"""Generate /verif/MANIFEST.json from the unit definitions and the N/A table."""
import importlib.util
import json
import os
import sys

VERIF = os.path.dirname(os.path.dirname(os.path.abspath(__file__)))
sys.path.insert(0, VERIF)

from contracts.registry import CLAIMS, NOT_APPLICABLE, HOOK_COMMITS  # noqa: E402


def main():
    props = [json.loads(l)["id"] for l in open(os.path.join(VERIF, "properties.jsonl"))]
    checks = []
    for pid in props:
        if pid not in CLAIMS:
            continue
        c = CLAIMS[pid]
        checks.append(dict(
            property_id=pid,
            quick_cmd="./check %s --tier quick" % pid,
            thorough_cmd="./check %s --tier thorough" % pid,
            evidence_file="/verif/evidence/%s.json" % pid,
            replay_cmd_template="./check %s --replay {path}" % pid,
            engine="contracts",
            level_claimed=dict(category=c["category"], text=c["text"], design_ref=c.get("design_ref", "DESIGN.md section 3")),
            level_note=c["note"],
            technique=c["technique"],
        ))
    na = [dict(property_id=p, reason=NOT_APPLICABLE[p]) for p in props if p not in CLAIMS]
    missing = [p for p in props if p not in CLAIMS and p not in NOT_APPLICABLE]
    assert not missing, missing
    man = dict(
        version=1,
        setup_cmd="./check --setup",
        hooks=dict(
            guard="cfg(kani)",
            enable="cargo kani sets --cfg kani; harnesses are pulled in by `#[cfg(kani)] include!(concat!(env!(\"DATAFUSION_VERIF_DIR\"), ..))` with DATAFUSION_VERIF_DIR=/verif; Verus units need no hook (functions are extracted from the working tree on every run)",
            baseline_off_cmd="cd /repo && cargo nextest run --workspace --no-fail-fast --tool-config-file pb:/w/lib/nextest.toml --profile pb --test-threads 8 --offline",
            source_commits=HOOK_COMMITS,
            add_only=True,
        ),
        engines=[dict(name="contracts", path="/verif/check",
                      serves_properties=[c["property_id"] for c in checks],
                      kind_free_text="contract-based deductive verification: Verus (SMT, unbounded) on functions extracted mechanically from /repo each run with spliced contracts; Kani/CBMC function contracts and harnesses compiled into the real crates under cfg(kani)")],
        checks=checks,
        notes="exit 0 pass / 1 violation / 2 undecided (never an alarm). Known findings: /verif/known_findings.txt. Design: /verif/DESIGN.md.",
        not_applicable=na,
    )
    try:
        import jsonschema
        jsonschema.validate(man, json.load(open("/root/.vp/MANIFEST.schema.json")))   # validate BEFORE writing
        msg = "MANIFEST.json valid: %d checks, %d not applicable" % (len(checks), len(na))
    except ImportError:
        msg = "MANIFEST.json written (jsonschema not importable in this interpreter)"
    with open(os.path.join(VERIF, "MANIFEST.json"), "w") as fh:
        json.dump(man, fh, indent=1)
    print(msg)


if __name__ == "__main__":
    main()
