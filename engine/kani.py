"""Run Kani harnesses that live in /verif/kani/** on the REAL crates of /repo
(the cfg(kani) include! hooks pull them into the module under contract)."""
import os
import re
import shutil
import subprocess
import time

VERIF = os.path.dirname(os.path.dirname(os.path.abspath(__file__)))
TARGET = os.path.join(VERIF, ".cache", "kani-target")


def target_dir(repo="/repo"):
    """One Kani build directory per source path.  cargo-kani keeps one output directory per (package id, profile)
    under <target>/kani/<triple>/debug/build/<pkg>/<hash>/ and, when several harnesses are selected, picks up the
    metadata of EVERY such directory: outputs of a build from another path of the same workspace (a scratch worktree
    with a seeded change) then shadow the current ones (observed: a harness failing on the unchanged tree).  In-place
    changes of one path reuse the same <hash> and overwrite it, so a single path is safe."""
    repo = os.path.realpath(repo)
    if repo == "/repo":
        return TARGET
    import hashlib
    return TARGET + "-" + hashlib.sha1(repo.encode()).hexdigest()[:10]


def _env(verif_dir=VERIF, repo="/repo"):
    e = dict(os.environ)
    e["CARGO_NET_OFFLINE"] = "true"
    e["DATAFUSION_VERIF_DIR"] = verif_dir
    e["CARGO_TARGET_DIR"] = target_dir(repo)
    e.pop("RUSTUP_TOOLCHAIN", None)
    return e


def _filter(out):
    """drop compiler warning noise"""
    keep = []
    skip = False
    for ln in out.split("\n"):
        if re.match(r"^(warning|note|help)(\[|:)", ln):
            skip = True
            continue
        if skip:
            if ln.startswith(" ") or ln.strip() == "" or ln.startswith("="):
                continue
            skip = False
        keep.append(ln)
    return "\n".join(keep)


def parse(out, harnesses):
    """-> dict harness -> result"""
    res = {}
    cur = {}  # thread -> harness
    blocks = re.split(r"(?m)^(?=(?:Thread \d+: )?Checking harness |Thread \d+: *$|Manual Harness Summary|Concrete playback unit test)", out)
    last = None
    for b in blocks:
        m = re.match(r"(?:Thread (\d+): )?Checking harness (\S+?)\.\.\.", b)
        if m:
            th = m.group(1) or "0"
            cur[th] = m.group(2)
            last = m.group(2)
            rest = b[m.end():]
            if "VERIFICATION RESULT" in rest or "VERIFICATION:-" in rest:
                _absorb(res, last, rest)
            continue
        m = re.match(r"Thread (\d+): *\n", b)
        if m and m.group(1) in cur:
            _absorb(res, cur[m.group(1)], b)
            continue
        m = re.match(r"Concrete playback unit test for `([^`]+)`:\n```\n(.*?)```", b, re.S)
        if m and m.group(1) in res:
            res[m.group(1)].setdefault("playback", []).append(m.group(2))
    # stubs applied are printed during compilation: "- Stub: a -> b" lines
    stubs = re.findall(r"^\s*- Stub: (.*)$", out, re.M)
    final = {}
    for h in harnesses:
        hit = [k for k in res if k == h or k.endswith("::" + h)]
        if len(hit) == 1:
            final[h] = res[hit[0]]
            final[h]["full_name"] = hit[0]
        else:
            final[h] = dict(status="UNDECIDED", reason="no result reported for harness")
    return final, stubs


def _absorb(res, name, text):
    r = res.setdefault(name, dict(status="UNDECIDED", failed=[], checks=0, checks_failed=0,
                                  covers_sat=0, covers=0, time=0.0))
    m = re.search(r"\*\* (\d+) of (\d+) failed", text)
    if m:
        r["checks_failed"], r["checks"] = int(m.group(1)), int(m.group(2))
    m = re.search(r"\*\* (\d+) of (\d+) cover properties satisfied", text)
    if m:
        r["covers_sat"], r["covers"] = int(m.group(1)), int(m.group(2))
    for fm in re.finditer(r"Failed Checks: (.*)\n File: \"([^\"]*)\", line (\d+), in (\S+)", text):
        r["failed"].append(dict(desc=fm.group(1).strip(), file=fm.group(2), line=int(fm.group(3)), fn=fm.group(4)))
    for fm in re.finditer(r"Failed Checks: (.*)\n(?! File)", text):
        r["failed"].append(dict(desc=fm.group(1).strip(), file="", line=0, fn=""))
    if "VERIFICATION:- SUCCESSFUL" in text:
        r["status"] = "SUCCESSFUL"
    elif "VERIFICATION:- FAILED" in text:
        r["status"] = "FAILED"
    m = re.search(r"Verification Time: ([\d.]+)s", text)
    if m:
        r["time"] = float(m.group(1))
    if "CBMC failed" in text or "out of memory" in text.lower() or "unwinding assertion" in text.lower() and False:
        r["status"] = "UNDECIDED"
        r["reason"] = "cbmc timed out (harness time box)" if "CBMC timed out" in text else "cbmc failure"
    r["raw"] = text[-3000:]


UNDECIDED_FAIL_PATTERNS = (
    "unwinding assertion",
    "is not currently supported by Kani", "unsupported construct", "Unsupported",
    "reached an unsupported", "CBMC failed", "memory exhausted",
)


def run(repo, package, harnesses, jobs=8, timeout=3600, playback=False, verif_dir=VERIF, extra=None):
    if not harnesses:
        return {}, dict(cmd="", wall=0.0, stubs=[], compile_error=None)
    # the time box applies to each harness's solver run (--harness-timeout), not to the build: after a change to a
    # low-level crate the Kani rebuild of the dependent crates alone can take many minutes
    cmd = ["cargo", "kani", "-p", package, "-Z", "function-contracts", "-Z", "stubbing", "-Z", "unstable-options",
           "--output-format", "terse", "--harness-timeout", "%ds" % int(timeout)]
    n_jobs = 1 if playback else max(1, min(jobs, len(harnesses)))
    outer_timeout = 3600 + int(timeout) * ((len(harnesses) + n_jobs - 1) // n_jobs)
    if playback:
        cmd += ["-Z", "concrete-playback", "--concrete-playback=print"]
    elif jobs > 1 and len(harnesses) > 1:
        cmd += ["-j", str(min(jobs, len(harnesses)))]
    for h in harnesses:
        cmd += ["--harness", h]
    cmd += ["--exact"] if False else []
    cmd += extra or []
    t0 = time.time()
    try:
        p = subprocess.run(cmd, cwd=repo, env=_env(verif_dir, repo), capture_output=True, text=True, timeout=outer_timeout)
        out = p.stdout + "\n" + p.stderr
        timed_out = False
    except subprocess.TimeoutExpired as e:
        out = (e.stdout.decode() if isinstance(e.stdout, bytes) else (e.stdout or "")) + "\n" + \
              (e.stderr.decode() if isinstance(e.stderr, bytes) else (e.stderr or ""))
        timed_out = True
        _kill_stragglers()
    wall = time.time() - t0
    info = dict(cmd=" ".join(cmd), wall=wall, timed_out=timed_out, compile_error=None)
    if re.search(r"^error(\[E\d+\])?:", out, re.M) and "Checking harness" not in out:
        errs = re.findall(r"^error(?:\[E\d+\])?: .*(?:\n\s+-->.*)?", out, re.M)
        info["compile_error"] = "\n".join(errs[:8])[:3000] or out[-2000:]
    results, _ = parse(_filter(out), harnesses)
    stubs = sorted(set(re.findall(r"^\s*- Stub: (.*)$", out, re.M)))
    info["stubs"] = stubs
    for h, r in results.items():
        if r["status"] == "FAILED":
            # failures that are tool limits, not semantic refutations
            descs = " ".join(f["desc"] for f in r.get("failed", []))
            if any(pat in descs for pat in UNDECIDED_FAIL_PATTERNS) and not any(
                    not any(p in f["desc"] for p in UNDECIDED_FAIL_PATTERNS) for f in r["failed"]):
                r["status"] = "UNDECIDED"
                r["reason"] = "unsupported construct reached: " + descs[:300]
        if r["status"] == "UNDECIDED" and timed_out:
            r["reason"] = "timeout after %ds" % timeout
    info["raw_tail"] = _filter(out)[-4000:]
    return results, info


def _kill_stragglers():
    try:
        out = subprocess.run(["pgrep", "-x", "cbmc"], capture_output=True, text=True).stdout.split()
        for pid in out:
            subprocess.run(["kill", "-9", pid])
    except Exception:
        pass


def playback_native(repo, package, module_rel, harness_mod, tests, timeout=3600):
    """Run Kani's generated concrete-playback unit tests natively on the real crate.
    A temporary copy of /verif/kani gets the tests appended to the harness
    module; /repo is not touched."""
    tmp = os.path.join(VERIF, "work", "playback-dir")
    shutil.rmtree(tmp, ignore_errors=True)
    os.makedirs(tmp)
    shutil.copytree(os.path.join(VERIF, "kani"), os.path.join(tmp, "kani"))
    p = os.path.join(tmp, "kani", module_rel)
    s = open(p).read().rstrip()
    assert s.endswith("}")
    s = s[:-1] + "\n" + "\n".join(tests) + "\n}\n"
    open(p, "w").write(s)
    cmd = ["cargo", "kani", "playback", "-Z", "concrete-playback", "-p", package, "--lib", "--",
           "kani_concrete_playback"]
    pr = subprocess.run(cmd, cwd=repo, env=_env(tmp, repo), capture_output=True, text=True, timeout=timeout)
    both = pr.stdout + "\n" + pr.stderr
    keep = []
    lines = both.split("\n")
    for i, ln in enumerate(lines):
        if "panicked at" in ln:
            keep += lines[i:i + 3]
        elif re.match(r"^(test |running \d+ test|test result:|failures:|    \S+::kani_concrete_playback)", ln):
            keep.append(ln)
        elif re.match(r"^error(\[E\d+\])?:", ln):
            keep += lines[i:i + 6]
    out = "\n".join(keep)
    shutil.rmtree(tmp, ignore_errors=True)
    return pr.returncode, out
