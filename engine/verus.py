"""Assemble a Verus unit from extracted repo functions + spliced contracts, run
`verus unit.rs --output-json --time`, classify the outcome."""
import json
import os
import re
import subprocess
import time

from .extract import Undecided, extract_item

VERIF = os.path.dirname(os.path.dirname(os.path.abspath(__file__)))

SEMANTIC = [
    ("postcondition not satisfied", "postcondition"),
    ("precondition not satisfied", "precondition"),
    ("precondition not met", "precondition"),
    ("requires not satisfied", "precondition"),
    ("invariant not satisfied at end of loop body", "invariant_preserved"),
    ("invariant not satisfied before loop", "invariant_established"),
    ("possible arithmetic underflow/overflow", "overflow"),
    ("possible division by zero", "div_by_zero"),
    ("possible bit shift underflow/overflow", "shift_overflow"),
    ("decreases not satisfied", "termination"),
    ("loop invariant not satisfied", "invariant"),
    ("assertion failed", "assertion"),
    ("unreachable", "unreachable_reached"),
    ("failed this postcondition", "postcondition"),
    ("possible truncation", "truncation"),
]


def read(cdir, name):
    if not name:
        return ""
    with open(os.path.join(cdir, name), encoding="utf-8") as fh:
        return fh.read()


def assemble(repo, cdir, unit, mutate=None, mustfail=False):
    """returns (text, meta) ; meta has items (with line ranges in unit), rewrite log"""
    log = []
    items = []
    parts = []
    header = unit.get("uses", "use vstd::prelude::*;\n")
    parts.append(header.rstrip() + "\n")
    parts.append("verus! {\n")
    parts.append("// ---- prelude: trusted declarations (every item is listed as an assumption) ----\n")
    prelude = read(cdir, unit.get("prelude"))
    if unit.get("std_specs", True):
        prelude = read(os.path.join(VERIF, "prelude"), "std_int.rs") + "\n" + prelude
    parts.append(prelude)
    parts.append("\n// ---- proofs: spec functions and lemmas (checked) ----\n")
    pf = unit.get("proofs")
    proofs = unit.get("proofs_header", "") + "".join(read(cdir, f) for f in (pf if isinstance(pf, (list, tuple)) else [pf]))
    parts.append(proofs)
    parts.append("\n// ---- extracted from the repository working tree ----\n")
    for it in unit["items"]:
        if unit.get("global_edits") and it["path"][-1].startswith("fn "):
            it = dict(it, edits=list(unit["global_edits"]) + list(it.get("edits") or []))
        if unit.get("global_edits_post") and it["path"][-1].startswith("fn "):
            it = dict(it, edits=list(it.get("edits") or []) + list(unit["global_edits_post"]))
        ex = extract_item(repo, it, log)
        if ex is None:
            continue
        if mutate and mutate.get("item") in (None, ex["name"]):
            n = ex["text"].count(mutate["find"])
            if n >= 1:
                ex["text"] = ex["text"].replace(mutate["find"], mutate["replace"], 1)
                if mutate.get("fixup"):
                    ex["text"] = ex["text"].replace(mutate["fixup"][0], mutate["fixup"][1], 1)
                mutate["applied"] = mutate.get("applied", 0) + 1
        cur = "".join(parts)
        start_line = cur.count("\n") + 1
        parts.append(ex["text"] + "\n\n")
        end_line = "".join(parts).count("\n")
        ex["unit_lines"] = (start_line, end_line)
        ex["contracted"] = bool(it.get("contract"))
        items.append(ex)
    wit = read(cdir, unit.get("witness"))
    wstart = "".join(parts).count("\n") + 1
    if wit:
        parts.append("\n// ---- witness callers (vacuity guard) ----\n")
        if mustfail:
            wit = re.sub(r"\bfn witness_", "fn mustfail_", wit)
            wit = wit.replace("//@MUSTFAIL", "assert(false);")
        parts.append(wit)
    parts.append("\n} // verus!\nfn main() {}\n")
    text = "".join(parts)
    meta = dict(items=items, rewrite_log=log, witness_start=wstart,
                n_witness=len(re.findall(r"\bfn (?:witness|mustfail)_", wit)),
                prelude_lines=(3, 3 + prelude.count("\n")))
    return text, meta


def scan_assumptions(text):
    """mechanical scan for trusted items"""
    found = []
    lines = text.split("\n")
    for i, ln in enumerate(lines):
        s = ln.strip()
        if s.startswith("//"):
            continue
        for kw in ("assume(", "admit(", "external_body", "assume_specification", "#[verifier::external",
                   "uninterp ", "global size_of", "#[verifier::truncate]", "axiom"):
            if kw in s:
                # name of the next fn/struct for readability
                ctx = ""
                for j in range(i, min(i + 6, len(lines))):
                    m = re.search(r"\b(fn|struct|enum|proof fn|spec fn)\s+(\w+)", lines[j])
                    if m:
                        ctx = m.group(2)
                        break
                found.append("%s @unit:%d %s" % (kw.strip("( "), i + 1, ctx))
    return found


def parse_diagnostics(stderr):
    """split rustc-style human diagnostics"""
    diags = []
    cur = None
    for ln in stderr.split("\n"):
        m = re.match(r"^(error|warning|note)(\[E\d+\])?: (.*)$", ln)
        if m:
            cur = dict(level=m.group(1), code=m.group(2), msg=m.group(3), line=None, text=ln + "\n")
            diags.append(cur)
            continue
        if cur is None:
            continue
        cur["text"] += ln + "\n"
        m = re.match(r"^\s*--> .*?:(\d+):(\d+)", ln)
        if m and cur["line"] is None:
            cur["line"] = int(m.group(1))
    return diags


def classify(diags, meta):
    """returns (semantic_failures, undecided_reasons)"""
    sem, und = [], []
    for d in diags:
        if d["level"] != "error":
            continue
        msg = d["msg"]
        if msg.startswith("aborting due to") or msg.startswith("could not compile"):
            continue
        kind = None
        for pat, k in SEMANTIC:
            if pat in msg:
                kind = k
                break
        if d["code"] or kind is None:
            und.append("verus: %s%s" % (msg, " (line %s)" % d["line"] if d["line"] else ""))
            continue
        if "rlimit" in msg.lower() or "resource limit" in msg.lower():
            und.append("verus: " + msg)
            continue
        where = "?"
        region = "other"
        for it in meta["items"]:
            a, b = it["unit_lines"]
            if d["line"] and a <= d["line"] <= b:
                where = it["name"]
                region = "extracted"
        if region == "other" and d["line"]:
            if d["line"] >= meta["witness_start"]:
                where, region = "witness", "witness"
            else:
                where, region = "proofs", "proofs"
        # which clause text failed (the source line the diagnostic points at)
        sem.append(dict(fn=where, kind=kind, region=region, line=d["line"], msg=msg, text=d["text"]))
    return sem, und


def run_verus(path, rlimit=30, timeout=900, multiple_errors=6):
    t0 = time.time()
    cmd = ["verus", path, "--output-json", "--time", "--rlimit", str(rlimit),
           "--multiple-errors", str(multiple_errors), "--num-threads", "8", "--triggers-mode", "silent"]
    try:
        p = subprocess.run(cmd, capture_output=True, text=True, timeout=timeout,
                           cwd=os.path.dirname(path))
    except subprocess.TimeoutExpired:
        return dict(timeout=True, wall=time.time() - t0, cmd=" ".join(cmd), stderr="timeout", json=None, rc=None)
    js = None
    try:
        js = json.loads(p.stdout)
    except Exception:
        pass
    return dict(timeout=False, wall=time.time() - t0, cmd=" ".join(cmd), stderr=p.stderr, json=js, rc=p.returncode)


def function_breakdown(js):
    out = []
    try:
        for mod in js["times-ms"]["smt"]["smt-run-module-times"]:
            for f in mod.get("function-breakdown", []):
                out.append(dict(function=f["function"], mode=f.get("mode:"), ms=f["time"],
                                rlimit=f.get("rlimit"), success=f["success"]))
    except Exception:
        pass
    return out


def check_unit(repo, cdir, unit, workdir, tier="quick", seed=0):
    """Full treatment of one Verus unit. Returns result dict:
       status in {pass, violation, undecided}; failures; evidence pieces"""
    os.makedirs(workdir, exist_ok=True)
    res = dict(name=unit["name"], backend="verus", status="pass", failures=[], undecided=[],
               functions=[], verified=0, errors=0, smt_ms=0, wall=0.0, mutants=None)
    try:
        text, meta = assemble(repo, cdir, unit)
    except Undecided as e:
        res["status"] = "undecided"
        res["undecided"].append("extract: %s" % e)
        return res
    # syntactic side conditions on functions that are not extracted
    for rt in unit.get("requires_text", []):
        try:
            from .extract import locate
            src = open(os.path.join(repo, rt["file"]), encoding="utf-8").read()
            loc = locate(src, rt["path"])
            body = src[loc["sig_start"]:loc["end"]]
            missing = [t for t in rt["must_contain"] if t not in body]
            if missing:
                res["status"] = "undecided"
                res["undecided"].append("anchor lost in %s: expected text %r (%s)" % (rt["path"][-1], missing, rt["why"]))
                return res
        except Undecided as e:
            res["status"] = "undecided"
            res["undecided"].append("requires_text: %s" % e)
            return res
    path = os.path.join(workdir, unit["name"] + ".rs")
    with open(path, "w") as fh:
        fh.write(text)
    res["unit_file"] = path
    res["rewrite_log"] = meta["rewrite_log"]
    res["assumptions"] = scan_assumptions(text)
    # trusted items may only live in the prelude region
    for it in meta["items"]:
        for kw in ("assume(", "admit(", "external_body", "assume_specification"):
            if kw in it["text"]:
                res["status"] = "undecided"
                res["undecided"].append("trusted construct %r inside extracted item %s" % (kw, it["name"]))
    for kw in ("assume(", "admit("):
        pf_ = unit.get("proofs")
        if kw in "".join(read(cdir, f) for f in (pf_ if isinstance(pf_, (list, tuple)) else [pf_])):
            res["status"] = "undecided"
            res["undecided"].append("trusted construct %r inside proofs" % kw)
    if res["status"] == "undecided":
        return res
    r = run_verus(path, rlimit=unit.get("rlimit", 30))
    res["wall"] += r["wall"]
    res["checker_cmd"] = r["cmd"]
    if r["timeout"] or r["json"] is None:
        res["status"] = "undecided"
        res["undecided"].append("verus: no result (%s)" % (r["stderr"][-400:],))
        return res
    vr = r["json"]["verification-results"]
    res["verified"], res["errors"] = vr.get("verified", 0), vr.get("errors", 0)
    res["smt_ms"] = r["json"]["times-ms"].get("smt", {}).get("smt-run", 0)
    res["breakdown"] = function_breakdown(r["json"])
    diags = parse_diagnostics(r["stderr"])
    sem, und = classify(diags, meta)
    res["stderr_tail"] = r["stderr"][-6000:]
    for it in meta["items"]:
        res["functions"].append(dict(name=it["name"], file=it["file"], lines=[it["line_start"], it["line_end"]],
                                     sha256=it["sha256"], under_contract=it["contracted"], diff=it["diff"]))
    if und or (not vr.get("success") and not sem):
        res["status"] = "undecided"
        res["undecided"] += und or ["verus failed without a classified diagnostic: %s" % r["stderr"][-500:]]
        return res
    if sem:
        # proof-hint assertions inside spliced proof text alone do not decide anything
        hard = [s for s in sem if not (s["kind"] == "assertion" and _in_proof_text(s, text))]
        if hard:
            res["status"] = "violation"
            res["failures"] = hard
        else:
            res["status"] = "undecided"
            res["undecided"].append("only proof-hint assertions failed: " + "; ".join(
                "%s@%s" % (s["fn"], s["line"]) for s in sem))
            res["hint_failures"] = sem
        return res
    if res["verified"] < unit.get("min_verified", 1):
        res["status"] = "undecided"
        res["undecided"].append("vacuity: only %d functions verified, expected >= %d"
                                % (res["verified"], unit.get("min_verified", 1)))
        return res
    # ---- vacuity guard: must-fail twins of the witness callers ----
    if unit.get("witness"):
        t2, m2 = assemble(repo, cdir, unit, mustfail=True)
        p2 = os.path.join(workdir, unit["name"] + "_mustfail.rs")
        with open(p2, "w") as fh:
            fh.write(t2)
        r2 = run_verus(p2, rlimit=unit.get("rlimit", 30), multiple_errors=1)
        res["wall"] += r2["wall"]
        n_fail = 0
        if r2["json"] is not None:
            d2 = parse_diagnostics(r2["stderr"])
            n_fail = len([d for d in d2 if d["level"] == "error" and "assertion failed" in d["msg"]
                          and d["line"] and d["line"] >= m2["witness_start"]])
        res["mustfail"] = dict(twins=m2["n_witness"], rejected=n_fail)
        if n_fail != m2["n_witness"] or m2["n_witness"] == 0:
            res["status"] = "undecided"
            res["undecided"].append("vacuity guard: %d of %d must-fail twins rejected (a precondition may be contradictory)"
                                    % (n_fail, m2["n_witness"]))
            return res
    # ---- thorough: seeded mutants on the extracted copy ----
    if tier == "thorough" and unit.get("mutants"):
        killed, total, detail = 0, 0, []
        muts = list(unit["mutants"])
        if seed:
            k = seed % len(muts)
            muts = muts[k:] + muts[:k]
        for mu in muts:
            mu = dict(mu)
            try:
                t3, m3 = assemble(repo, cdir, unit, mutate=mu)
            except Undecided as e:
                detail.append(dict(name=mu["name"], outcome="undecided:%s" % e))
                continue
            if not mu.get("applied"):
                detail.append(dict(name=mu["name"], outcome="not-applicable (anchor absent)"))
                continue
            total += 1
            p3 = os.path.join(workdir, "%s_mut_%s.rs" % (unit["name"], mu["name"]))
            with open(p3, "w") as fh:
                fh.write(t3)
            r3 = run_verus(p3, rlimit=unit.get("rlimit", 30), multiple_errors=1)
            res["wall"] += r3["wall"]
            ok = r3["json"] is not None and r3["json"]["verification-results"].get("success")
            if not ok:
                killed += 1
            detail.append(dict(name=mu["name"], outcome="accepted(!)" if ok else "rejected"))
        res["mutants"] = dict(killed=killed, total=total, detail=detail)
    return res


def _in_proof_text(s, unit_text):
    """is the failing assertion located on a line that came from spliced proof text
    (lines inside `proof { .. }` or starting with `assert(`, which the repository
    code never contains: it uses assert!/debug_assert!)"""
    if not s["line"]:
        return False
    lines = unit_text.split("\n")
    ln = lines[s["line"] - 1] if s["line"] - 1 < len(lines) else ""
    return "assert!" not in ln
