// ---- shared trusted specifications of std integer functions that vstd does not specify ----
// (kept here so that a change of the code to one of these functions is still decided instead of
//  ending as "unsupported"; each is the documented mathematical meaning)
pub assume_specification[ u64::div_ceil ](a: u64, b: u64) -> (r: u64)
    requires b != 0,
    ensures r as int == (a as int + b as int - 1) / (b as int);
pub assume_specification[ u128::div_ceil ](a: u128, b: u128) -> (r: u128)
    requires b != 0,
    ensures r as int == (a as int + b as int - 1) / (b as int);
pub assume_specification[ usize::div_ceil ](a: usize, b: usize) -> (r: usize)
    requires b != 0,
    ensures r as int == (a as int + b as int - 1) / (b as int);
pub assume_specification[ usize::abs_diff ](a: usize, b: usize) -> (r: usize)
    ensures r as int == (if a >= b { a - b } else { b - a });
pub assume_specification[ u64::abs_diff ](a: u64, b: u64) -> (r: u64)
    ensures r as int == (if a >= b { a - b } else { b - a });
pub assume_specification[ usize::midpoint ](a: usize, b: usize) -> (r: usize)
    ensures r as int == (a as int + b as int) / 2;
pub assume_specification[ u64::midpoint ](a: u64, b: u64) -> (r: u64)
    ensures r as int == (a as int + b as int) / 2;
