// Kani harnesses hosted by the hook in expr-common/src/casts.rs (property C47): the common type chosen for a
// comparison between integer / decimal types never silently loses information.
#[allow(unused_qualifications, unused_imports, dead_code, clippy::all)]
mod verif_kani {
    use super::*;
    use crate::type_coercion::binary::{binary_numeric_coercion, comparison_coercion};
    use arrow::datatypes::{DECIMAL32_MAX_PRECISION, DECIMAL64_MAX_PRECISION, DECIMAL128_MAX_PRECISION, DECIMAL256_MAX_PRECISION};

    // an abstract description of an integer or decimal type
    #[derive(Clone, Copy, PartialEq, Eq)]
    enum Num { Int { signed: bool, bits: u8 }, Dec { width: u16, p: u8, s: i8 } }

    fn describe(t: &DataType) -> Option<Num> {
        Some(match t {
            DataType::Int8 => Num::Int { signed: true, bits: 8 }, DataType::Int16 => Num::Int { signed: true, bits: 16 },
            DataType::Int32 => Num::Int { signed: true, bits: 32 }, DataType::Int64 => Num::Int { signed: true, bits: 64 },
            DataType::UInt8 => Num::Int { signed: false, bits: 8 }, DataType::UInt16 => Num::Int { signed: false, bits: 16 },
            DataType::UInt32 => Num::Int { signed: false, bits: 32 }, DataType::UInt64 => Num::Int { signed: false, bits: 64 },
            DataType::Decimal32(p, s) => Num::Dec { width: 32, p: *p, s: *s }, DataType::Decimal64(p, s) => Num::Dec { width: 64, p: *p, s: *s },
            DataType::Decimal128(p, s) => Num::Dec { width: 128, p: *p, s: *s }, DataType::Decimal256(p, s) => Num::Dec { width: 256, p: *p, s: *s },
            _ => return None,
        })
    }
    fn max_precision(width: u16) -> u8 {
        match width { 32 => DECIMAL32_MAX_PRECISION, 64 => DECIMAL64_MAX_PRECISION, 128 => DECIMAL128_MAX_PRECISION, _ => DECIMAL256_MAX_PRECISION }
    }
    /// decimal digits needed for every value of the integer type
    fn int_digits(signed: bool, bits: u8) -> i32 { match (signed, bits) { (_, 8) => 3, (_, 16) => 5, (_, 32) => 10, (true, _) => 19, (false, _) => 20 } }
    /// number of decimal digits d such that every d-digit number fits the integer type
    fn int_safe_digits(signed: bool, bits: u8) -> i32 { match (signed, bits) { (_, 8) => 2, (_, 16) => 4, (_, 32) => 9, (true, _) => 18, (false, _) => 19 } }

    /// Every value of `a` is represented exactly in `r`, or converting it to `r` overflows (an error, never a
    /// silently different number): fractional digits are never dropped, integer digits only at the width's maximum precision.
    fn no_silent_loss(a: Num, r: Num) -> bool {
        match (a, r) {
            (Num::Int { signed: sa, bits: ba }, Num::Int { signed: sr, bits: br }) =>
                if sa == sr { br >= ba } else { sr && br > ba },
            (Num::Int { signed, bits }, Num::Dec { width, p, s }) =>
                s >= 0 && ((p as i32 - s as i32) >= int_digits(signed, bits) || p == max_precision(width)),
            (Num::Dec { p: p1, s: s1, .. }, Num::Dec { width, p, s }) =>
                s >= s1 && ((p as i32 - s as i32) >= (p1 as i32 - s1 as i32) || p == max_precision(width)),
            // a decimal without fractional digits holds integers only: the cast to an integer type is exact or overflows (error)
            (Num::Dec { s: s1, .. }, Num::Int { .. }) => s1 <= 0,
        }
    }

    // The type constructors are chosen CONCRETELY (loops over all of them), only precision and scale are symbolic:
    // with a symbolic variant CBMC has to carry the whole DataType enum through `==`, `clone` and the matches.
    fn int_type(k: u8) -> DataType {
        match k {
            0 => DataType::Int8, 1 => DataType::Int16, 2 => DataType::Int32, 3 => DataType::Int64,
            4 => DataType::UInt8, 5 => DataType::UInt16, 6 => DataType::UInt32, _ => DataType::UInt64,
        }
    }
    /// any decimal type of the given width that Arrow accepts (validate_decimal_precision_and_scale), scale not below -40
    fn decimal_type(w: u8) -> DataType {
        let p: u8 = kani::any();
        let s: i8 = kani::any();
        let maxp = match w { 0 => DECIMAL32_MAX_PRECISION, 1 => DECIMAL64_MAX_PRECISION, 2 => DECIMAL128_MAX_PRECISION, _ => DECIMAL256_MAX_PRECISION };
        kani::assume(p >= 1 && p <= maxp && s >= -40 && (s <= 0 || s as u8 <= p));
        match w { 0 => DataType::Decimal32(p, s), 1 => DataType::Decimal64(p, s), 2 => DataType::Decimal128(p, s), _ => DataType::Decimal256(p, s) }
    }

    fn check_pair(a: DataType, b: DataType) {
        let r = binary_numeric_coercion(&a, &b);
        let r2 = binary_numeric_coercion(&b, &a);
        let (da, db) = (describe(&a).unwrap(), describe(&b).unwrap());
        match (&r, &r2) {
            (Some(x), Some(y)) => assert!(describe(x) == describe(y), "C47.coercion.symmetric_in_its_operands"),
            (None, None) => {}
            _ => assert!(false, "C47.coercion.symmetric_in_its_operands"),
        }
        if let Some(t) = &r {
            let dr = describe(t);
            assert!(dr.is_some(), "C47.coercion.integer_decimal_pair_gets_integer_or_decimal_type");
            let dr = dr.unwrap();
            assert!(no_silent_loss(da, dr), "C47.coercion.common_type_loses_nothing_of_the_left_operand");
            assert!(no_silent_loss(db, dr), "C47.coercion.common_type_loses_nothing_of_the_right_operand");
        }
        kani::cover!(r.is_some());
        std::mem::forget(r); std::mem::forget(r2); std::mem::forget(a); std::mem::forget(b);
    }

    #[kani::proof]
    #[kani::unwind(9)]
    fn c47_coercion_int_int() {
        let mut i = 0u8;
        while i < 8 { let mut j = 0u8; while j < 8 { check_pair(int_type(i), int_type(j)); j += 1; } i += 1; }
    }

    // one loop-free harness per pair of type constructors (precision and scale symbolic): a harness over several
    // constructors at once takes CBMC tens of minutes or exhausts memory, a single pair takes seconds
    macro_rules! dec_int { ($($name:ident: $w:expr, $k:expr;)*) => { $(
        #[kani::proof]
        fn $name() { check_pair(decimal_type($w), int_type($k)); }
    )* } }
    dec_int! {
        c47_coercion_d32_i8: 0, 0;  c47_coercion_d32_i16: 0, 1;  c47_coercion_d32_i32: 0, 2;  c47_coercion_d32_i64: 0, 3;
        c47_coercion_d32_u8: 0, 4;  c47_coercion_d32_u16: 0, 5;  c47_coercion_d32_u32: 0, 6;  c47_coercion_d32_u64: 0, 7;
        c47_coercion_d64_i8: 1, 0;  c47_coercion_d64_i16: 1, 1;  c47_coercion_d64_i32: 1, 2;  c47_coercion_d64_i64: 1, 3;
        c47_coercion_d64_u8: 1, 4;  c47_coercion_d64_u16: 1, 5;  c47_coercion_d64_u32: 1, 6;  c47_coercion_d64_u64: 1, 7;
        c47_coercion_d128_i8: 2, 0; c47_coercion_d128_i16: 2, 1; c47_coercion_d128_i32: 2, 2; c47_coercion_d128_i64: 2, 3;
        c47_coercion_d128_u8: 2, 4; c47_coercion_d128_u16: 2, 5; c47_coercion_d128_u32: 2, 6; c47_coercion_d128_u64: 2, 7;
        c47_coercion_d256_i8: 3, 0; c47_coercion_d256_i16: 3, 1; c47_coercion_d256_i32: 3, 2; c47_coercion_d256_i64: 3, 3;
        c47_coercion_d256_u8: 3, 4; c47_coercion_d256_u16: 3, 5; c47_coercion_d256_u32: 3, 6; c47_coercion_d256_u64: 3, 7;
    }

    fn decimal_vs_decimal(i: u8, j: u8) {
        let (a, b) = (decimal_type(i), decimal_type(j));
        // Domain restriction (observation O6 in DESIGN.md 9.5): get_wider_decimal_type computes
        // `(range + s) as u8` in i8; for Decimal256 operands such as (76, 0) vs (76, 76) the sum exceeds 127 and
        // debug builds panic (release builds wrap to the value that is then clamped, i.e. the right type).
        // A panicking comparison "evaluates with an error", which C47 does not speak about, so those pairs are excluded.
        if let (Some(Num::Dec { p: p1, s: s1, .. }), Some(Num::Dec { p: p2, s: s2, .. })) = (describe(&a), describe(&b)) {
            let r1 = p1 as i32 - s1 as i32; let r2 = p2 as i32 - s2 as i32;
            let range = if r1 > r2 { r1 } else { r2 };
            let s = if s1 > s2 { s1 } else { s2 } as i32;
            kani::assume(range + s <= 127);
        }
        check_pair(a, b);
    }
    macro_rules! dec_dec { ($($name:ident: $w:expr, $k:expr;)*) => { $(
        #[kani::proof]
        fn $name() { decimal_vs_decimal($w, $k); }
    )* } }
    // symmetric pairs are covered by the symmetry assertion, so only i <= j
    dec_dec! {
        c47_coercion_d32_d32: 0, 0; c47_coercion_d32_d64: 0, 1; c47_coercion_d32_d128: 0, 2; c47_coercion_d32_d256: 0, 3;
        c47_coercion_d64_d64: 1, 1; c47_coercion_d64_d128: 1, 2; c47_coercion_d64_d256: 1, 3;
        c47_coercion_d128_d128: 2, 2; c47_coercion_d128_d256: 2, 3;
        c47_coercion_d256_d256: 3, 3;
    }

    // ------------------------------------------------------------------------------------------------
    // property C07: EmitTo::take_needed (the call every GroupsAccumulator makes to emit All / the First(n) groups)
    // ------------------------------------------------------------------------------------------------
    #[kani::proof]
    #[kani::unwind(8)]
    fn c07_emit_to_take_needed_bounded() {
        use crate::groups_accumulator::EmitTo;
        let len: usize = kani::any();
        kani::assume(len <= 5);
        let src: [u8; 5] = kani::any();
        let mut v: Vec<u8> = Vec::with_capacity(8);
        let mut i = 0;
        while i < len { v.push(src[i]); i += 1; }
        let all: bool = kani::any();
        let n: usize = kani::any();
        kani::assume(n <= len);
        let emit = if all { EmitTo::All } else { EmitTo::First(n) };
        let want = if all { len } else { n };
        let taken = emit.take_needed(&mut v);
        assert!(taken.len() == want && v.len() == len - want, "C07.take_needed.lengths");
        let mut k = 0;
        while k < len {
            if k < want { assert!(taken[k] == src[k], "C07.take_needed.emits_the_first_groups_in_order"); }
            else { assert!(v[k - want] == src[k], "C07.take_needed.keeps_the_remaining_groups_in_order"); }
            k += 1;
        }
        kani::cover!(!all && n >= 1 && n < len);
        kani::cover!(all && len >= 2);
    }

    // ------------------------------------------------------------------------------------------------
    // property C47, "same answer with the operands swapped and the operator mirrored": Operator::swap (and negate) for the
    // comparison operators against SQL's three-valued comparison of two nullable integers.  Loop-free over all values.
    // ------------------------------------------------------------------------------------------------
    use crate::operator::Operator;
    /// SQL comparison of two nullable integers: None = NULL (unknown)
    fn sql_cmp(op: Operator, a: Option<i64>, b: Option<i64>) -> Option<bool> {
        match op {
            Operator::IsDistinctFrom => Some(a != b),
            Operator::IsNotDistinctFrom => Some(a == b),
            _ => match (a, b) {
                (Some(x), Some(y)) => Some(match op {
                    Operator::Eq => x == y, Operator::NotEq => x != y, Operator::Lt => x < y,
                    Operator::LtEq => x <= y, Operator::Gt => x > y, _ => x >= y,
                }),
                _ => None,
            },
        }
    }
    fn any_opt() -> Option<i64> { if kani::any() { Some(kani::any()) } else { None } }
    #[kani::proof]
    #[kani::unwind(9)]
    fn c47_operator_mirror_and_negation() {
        let ops = [Operator::Eq, Operator::NotEq, Operator::Lt, Operator::LtEq, Operator::Gt, Operator::GtEq,
                   Operator::IsDistinctFrom, Operator::IsNotDistinctFrom];
        let (a, b) = (any_opt(), any_opt());
        let mut i = 0;
        while i < 8 {
            let op = ops[i];
            match op.swap() {
                Some(m) => {
                    assert!(sql_cmp(m, b, a) == sql_cmp(op, a, b), "C47.operator.mirrored_operator_on_swapped_operands_gives_the_same_answer");
                    assert!(m.swap() == Some(op), "C47.operator.swap_is_an_involution");
                }
                None => assert!(false, "C47.operator.every_comparison_can_be_mirrored"),
            }
            match op.negate() {
                Some(n) => {
                    let (x, y) = (sql_cmp(op, a, b), sql_cmp(n, a, b));
                    assert!(match (x, y) { (Some(p), Some(q)) => p != q, (None, None) => true, _ => false }, "C47.operator.negated_operator_gives_the_negated_answer");
                }
                None => assert!(false, "C47.operator.every_comparison_can_be_negated"),
            }
            i += 1;
        }
        kani::cover!(a.is_none() && b.is_some());
        kani::cover!(a.is_some() && b.is_some());
    }
}
