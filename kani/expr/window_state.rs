#[allow(unused_qualifications, unused_imports, dead_code, clippy::all)]
mod verif_kani {
    use super::*;
}
