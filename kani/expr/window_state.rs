// (no registered harnesses: matching on WindowFrameBound makes kani-compiler 0.68 panic at rvalue.rs:1009; see /verif/attempts)
#[allow(unused_qualifications, unused_imports, dead_code, clippy::all)]
mod verif_kani {}
