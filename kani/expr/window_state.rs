// Kani harness for expr/src/window_state.rs (property C09, GROUPS frames), BOUNDED: the real
// WindowFrameStateGroups::calculate_range on one concrete ORDER BY column [1,1,2,3,3] (three peer
// groups), every row, every bound kind, offsets over the FULL u64 domain.
#[allow(unused_qualifications, unused_imports, dead_code, clippy::all)]
mod verif_kani {
    use super::*;
    use arrow::array::UInt64Array;

    fn any_bound(allow_unbounded_preceding: bool, allow_unbounded_following: bool) -> (WindowFrameBound, i128) {
        // returns the bound and its group offset relative to the current group (i128::MIN / MAX = unbounded)
        let n: u64 = kani::any();
        match kani::any::<u8>() % 5 {
            0 => (WindowFrameBound::CurrentRow, 0),
            1 => (WindowFrameBound::Preceding(ScalarValue::UInt64(Some(n))), -(n as i128)),
            2 => (WindowFrameBound::Following(ScalarValue::UInt64(Some(n))), n as i128),
            3 if allow_unbounded_preceding => (WindowFrameBound::Preceding(ScalarValue::UInt64(None)), i128::MIN),
            4 if allow_unbounded_following => (WindowFrameBound::Following(ScalarValue::UInt64(None)), i128::MAX),
            _ => (WindowFrameBound::CurrentRow, 0),
        }
    }

    #[kani::proof]
    #[kani::unwind(8)]
    fn c09_groups_frame_bounded() {
        // peer groups of the ORDER BY column: rows 0..2 (group 0), 2..3 (group 1), 3..5 (group 2)
        const STARTS: [usize; 3] = [0, 2, 3];
        const ENDS: [usize; 3] = [2, 3, 5];
        let col: ArrayRef = Arc::new(UInt64Array::from(vec![1u64, 1, 2, 3, 3]));
        let cols = [col];
        let (sb, so) = any_bound(true, false);
        let (eb, eo) = any_bound(false, true);
        let frame = Arc::new(WindowFrame::new_bounds(WindowFrameUnits::Groups, sb, eb));
        let idx: usize = kani::any();
        kani::assume(idx < 5);
        let g: i128 = if idx < 2 { 0 } else if idx < 3 { 1 } else { 2 };
        let mut st = WindowFrameStateGroups::default();
        let res = st.calculate_range(&frame, &cols, 5, idx);
        // definition: the frame consists of the peer groups g+so ..= g+eo (clamped to the partition)
        let first = if so == i128::MIN { 0 } else { g + so };
        let last = if eo == i128::MAX { 2 } else { g + eo };
        let exp_start = if first <= 0 { 0 } else if first > 2 { 5 } else { STARTS[first as usize] };
        let exp_end = if last < 0 { 0 } else if last >= 2 { 5 } else { ENDS[last as usize] };
        match &res {
            Ok(r) => {
                assert!(r.start == exp_start, "C09.groups.frame_start_is_first_row_of_the_start_group");
                assert!(r.end == exp_end, "C09.groups.frame_end_is_one_past_the_last_row_of_the_end_group");
            }
            Err(_) => assert!(false, "C09.groups.no_error_for_uint64_offsets"),
        }
        kani::cover!(idx == 2 && so == -1 && eo == 1);
        kani::cover!(eo > 1000);
        std::mem::forget(res);
        std::mem::forget(st);
        std::mem::forget(frame);
        std::mem::forget(cols);
    }
}
