// Kani harnesses for aggregates/order/partial.rs (property C06, early-emission part).
#[allow(unused_qualifications, unused_imports, dead_code, clippy::all)]
mod verif_kani {
    use super::*;

    fn mk(cs: usize, cur: usize) -> GroupOrderingPartial {
        GroupOrderingPartial { state: State::InProgress { current_sort: cs, sort_key: Vec::new(), current: cur }, order_indices: Vec::new() }
    }
    fn emit_first(e: &Option<EmitTo>) -> Option<usize> { match e { Some(EmitTo::First(n)) => Some(*n), _ => None } }

    /// emit_to only releases the groups whose sort key is strictly before the current sort key:
    /// First(current_sort), never All while input is open; given the representation invariant
    /// current_sort <= current the open groups current_sort..=current are never emitted
    #[kani::proof]
    fn c06_partial_emit_to_and_remove() {
        let cs: usize = kani::any();
        let cur: usize = kani::any();
        kani::assume(cs <= cur); // invariant established by new_groups (group indices of a batch are <= max index)
        let mut g = mk(cs, cur);
        let e = g.emit_to();
        if cs == 0 {
            assert!(e.is_none(), "C06.partial.emit_to.first_sort_key_still_open");
        } else {
            assert!(emit_first(&e) == Some(cs), "C06.partial.emit_to.emits_groups_before_current_sort_key");
            assert!(emit_first(&e).unwrap() <= cur, "C06.partial.emit_to.never_emits_open_group");
        }
        assert!(!matches!(e, Some(EmitTo::All)), "C06.partial.emit_to.all_only_after_input_done");
        let n: usize = kani::any();
        kani::assume(n <= cs);
        g.remove_groups(n);
        match &g.state {
            State::InProgress { current_sort, current, .. } => {
                assert!(*current_sort == cs - n && *current == cur - n, "C06.partial.remove_groups.shifts_both_by_n");
                assert!(*current_sort <= *current, "C06.partial.remove_groups.keeps_invariant");
            }
            _ => assert!(false, "C06.partial.remove_groups.stays_in_progress"),
        }
        if n == cs { assert!(g.emit_to().is_none(), "C06.partial.after_full_emit_nothing_left"); }
        g.input_done();
        assert!(matches!(g.emit_to(), Some(EmitTo::All)), "C06.partial.input_done_then_all");
        g.reset();
        assert!(g.emit_to().is_none(), "C06.partial.reset_emits_nothing");
        kani::cover!(cs > 0 && n == cs);
        std::mem::forget(g);
    }

    #[kani::proof]
    #[kani::should_panic]
    fn c06_partial_remove_beyond_sort_boundary_panics() {
        let cs: usize = kani::any();
        let cur: usize = kani::any();
        let n: usize = kani::any();
        kani::assume(cs <= cur && n > cs);
        let mut g = mk(cs, cur);
        g.remove_groups(n);
        std::mem::forget(g);
    }
}
