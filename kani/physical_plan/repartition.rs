// Kani harnesses for repartition/mod.rs: BOUNDED twins of the Verus units of C10 and C11, run on the
// unextracted code (cross-check of the extraction, and counterexample finders when a rewritten
// function no longer fits the spliced invariants).
#[allow(unused_qualifications, unused_imports, dead_code, clippy::all)]
mod verif_kani {
    use super::*;
    use datafusion_common::ScalarValue;

    // ---- C10: keys are encoded by the LENGTH of an all-NULL row; compare_rows is stubbed to compare lengths
    //      (a total pre-order), so no ScalarValue comparison enters the formula ----
    fn stub_compare_rows(a: &[ScalarValue], b: &[ScalarValue], _o: &[SortOptions]) -> Result<Ordering> {
        Ok(a.len().cmp(&b.len()))
    }
    fn key(n: usize) -> Vec<ScalarValue> {
        let mut v = Vec::new();
        let mut i = 0;
        while i < n { v.push(ScalarValue::Null); i += 1; }
        v
    }

    /// range_partition_id == number of split points <= row, for every strictly increasing list of
    /// up to 5 split points (keys 1,3,5,7,9 prefix) and every row key 0..=10
    #[kani::proof]
    #[kani::unwind(12)]
    #[kani::stub(datafusion_common::utils::compare_rows, stub_compare_rows)]
    fn c10_range_partition_id_bounded() {
        let k: usize = kani::any();
        kani::assume(k <= 5);
        let mut sps: Vec<SplitPoint> = Vec::new();
        let mut i = 0;
        while i < k { sps.push(SplitPoint::new(key(2 * i + 1))); i += 1; }
        let buf = key(10);
        let n: usize = kani::any();
        kani::assume(n <= 10);
        let res = range_partition_id(&buf[..n], &sps, &[]);
        let mut expected = 0usize;
        let mut j = 0;
        while j < k { if 2 * j + 1 <= n { expected += 1; } j += 1; }
        match &res {
            Ok(r) => assert!(*r == expected, "C10.range_partition_id.is_number_of_split_points_le_row"),
            Err(_) => assert!(false, "C10.range_partition_id.no_error"),
        }
        kani::cover!(k == 3 && expected == 3);
        kani::cover!(k == 5 && expected == 2);
        std::mem::forget(res);
        std::mem::forget(sps);
        std::mem::forget(buf);
    }

    // (a two-batch harness of partition_range_indices over `&[Arc<dyn Array>]` was tried and removed: CBMC did not
    //  finish in 15 min -- the dyn Array calls are expanded over every Arrow array type)

    // (a harness for the round-robin arm of partition_iter on a forged partitioner was tried: the other arms of the
    //  same function make kani-compiler 0.68 panic at codegen/rvalue.rs:1009 -- removed)

    // ---- C11: bounded twin of the strength-reduced remainder: divisors 1..=6 and three boundary divisors,
    //      hashes restricted to < 2^16 or within 2^16 of 2^64 (the 64x128-bit multiply is intractable in full) ----
    fn c11_check(d: u64) {
        let h: u64 = kani::any();
        kani::assume(h < (1 << 16) || h > u64::MAX - (1 << 16));
        let reducer = StrengthReducedU64::new(d);
        let mut indices: Vec<Vec<u32>> = Vec::new();
        let mut i = 0;
        while i < d { indices.push(Vec::new()); i += 1; }
        let hashes = [h];
        reducer.partition_indices(&hashes, &mut indices);
        let b0 = (h % d) as usize;
        let mut total = 0usize;
        let mut p = 0;
        while p < d as usize { total += indices[p].len(); p += 1; }
        assert!(total == 1, "C11.partition_indices.every_row_exactly_once");
        assert!(indices[b0].len() == 1 && indices[b0][0] == 0, "C11.partition_indices.row_in_hash_mod_n");
        std::mem::forget(indices);
    }
    /// concrete divisors (the reciprocal is then a constant), symbolic hash near both ends of the u64 range
    #[kani::proof]
    #[kani::unwind(9)]
    fn c11_partition_indices_bounded() {
        c11_check(1); c11_check(3); c11_check(4); c11_check(5); c11_check(6); c11_check(7);
        kani::cover!(true);
    }
}
