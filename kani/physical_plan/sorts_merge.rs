// Kani harnesses for sorts/merge.rs (property C08): BOUNDED check of the loser tree on the real
// methods.  The stream object is forged: only the fields the loser-tree methods touch are
// initialised (cursors, loser_tree, tie-breaker fields with the tie breaker disabled); the rest
// (batch builder, input streams, metrics) is never read and the value is never dropped.
#[allow(unused_qualifications, unused_imports, dead_code, clippy::all)]
mod verif_kani {
    use super::*;
    use crate::sorts::cursor::{Cursor, CursorValues};
    use std::cmp::Ordering;
    use std::mem::MaybeUninit;

    /// one-row cursor values with a symbolic key
    #[derive(Debug)]
    struct V { k: u8 }
    impl CursorValues for V {
        type SingleRowValue = u8;
        fn len(&self) -> usize { 1 }
        fn eq(l: &Self, _li: usize, r: &Self, _ri: usize) -> bool { l.k == r.k }
        fn eq_to_previous(_c: &Self, _idx: usize) -> bool { false }
        fn compare(l: &Self, _li: usize, r: &Self, _ri: usize) -> Ordering { l.k.cmp(&r.k) }
        fn get_value(&self, _idx: usize) -> u8 { self.k }
        fn eq_to_single_row_value(l: &Self, _li: usize, r: &u8) -> bool { l.k == *r }
    }

    const KMAX: usize = 4;

    fn forge(k: usize, keys: &[u8; KMAX], live: &[bool; KMAX]) -> MaybeUninit<SortPreservingMergeStream<V>> {
        let mut s: MaybeUninit<SortPreservingMergeStream<V>> = MaybeUninit::uninit();
        let p = s.as_mut_ptr();
        let mut cursors: Vec<Option<Cursor<V>>> = Vec::new();
        let mut i = 0;
        while i < k { cursors.push(if live[i] { Some(Cursor::new(V { k: keys[i] })) } else { None }); i += 1; }
        unsafe {
            std::ptr::addr_of_mut!((*p).cursors).write(cursors);
            std::ptr::addr_of_mut!((*p).loser_tree).write(Vec::new());
            std::ptr::addr_of_mut!((*p).prev_cursors).write(None); // round-robin tie breaker disabled
            std::ptr::addr_of_mut!((*p).round_robin_tie_breaker_mode).write(false);
            std::ptr::addr_of_mut!((*p).num_of_polled_with_same_value).write(Vec::new());
            std::ptr::addr_of_mut!((*p).poll_reset_epochs).write(Vec::new());
            std::ptr::addr_of_mut!((*p).current_reset_epoch).write(0);
        }
        s
    }

    /// reference order of the merge: exhausted cursors last, then by key, ties by stream index
    fn ref_gt(keys: &[u8; KMAX], live: &[bool; KMAX], a: usize, b: usize) -> bool {
        match (live[a], live[b]) {
            (false, _) => true,
            (_, false) => false,
            _ => (keys[a], a) > (keys[b], b),
        }
    }
    fn check_tree(s: &SortPreservingMergeStream<V>, k: usize, keys: &[u8; KMAX], live: &[bool; KMAX], msg_min: &'static str) {
        assert!(s.loser_tree.len() == k, "C08.loser_tree.has_one_node_per_stream");
        // every stream index occurs exactly once
        let mut seen = [false; KMAX];
        let mut i = 0;
        while i < k {
            let x = s.loser_tree[i];
            assert!(x < k && !seen[x], "C08.loser_tree.is_a_permutation_of_the_streams");
            seen[x] = true;
            i += 1;
        }
        // the winner is a minimum of the merge order
        let w = s.loser_tree[0];
        let mut j = 0;
        let _ = msg_min;
        while j < k { if j != w { assert!(ref_gt(keys, live, j, w), "C08.loser_tree.winner_is_minimum_of_the_merge_order"); } j += 1; }
    }

    // The stream count is a compile-time constant per harness: with a symbolic count CBMC 6.11 crashes in
    // propositional reduction on this program ("CBMC failed", probed; every concrete count verifies in seconds).
    fn check_init<const K: usize>() {
        let keys: [u8; KMAX] = kani::any();
        let live: [bool; KMAX] = kani::any();
        let mut st = forge(K, &keys, &live);
        let s = unsafe { &mut *st.as_mut_ptr() };
        let (a, b): (usize, usize) = (kani::any(), kani::any());
        kani::assume(a < K && b < K);
        if a != b { assert!(s.is_gt(a, b) == ref_gt(&keys, &live, a, b), "C08.is_gt.exhausted_last_then_key_then_index"); }
        s.init_loser_tree();
        check_tree(s, K, &keys, &live, "init");
        kani::cover!(live[0] && (K < 2 || !live[1]));
        std::mem::forget(st);
    }
    fn check_update<const K: usize>() {
        let mut keys: [u8; KMAX] = kani::any();
        let mut live: [bool; KMAX] = kani::any();
        let mut st = forge(K, &keys, &live);
        let s = unsafe { &mut *st.as_mut_ptr() };
        s.init_loser_tree();
        let w = s.loser_tree[0];
        kani::assume(w < K);
        // the winner is consumed: its stream presents an arbitrary new head, or is exhausted
        let exhausted: bool = kani::any();
        let nk: u8 = kani::any();
        let newc = if exhausted { None } else { Some(Cursor::new(V { k: nk })) };
        live[w] = !exhausted;
        keys[w] = nk;
        let old = std::mem::replace(&mut s.cursors[w], newc);
        std::mem::forget(old);
        s.update_loser_tree();
        check_tree(s, K, &keys, &live, "update");
        kani::cover!(exhausted);
        kani::cover!(!exhausted);
        std::mem::forget(st);
    }
    macro_rules! lt { ($($n:ident = $f:ident::<$k:literal>;)*) => { $( #[kani::proof] #[kani::unwind(7)] fn $n() { $f::<$k>(); } )* }; }
    lt! {
        c08_loser_tree_init_k2_bounded = check_init::<2>;
        c08_loser_tree_init_k3_bounded = check_init::<3>;
        c08_loser_tree_init_k4_bounded = check_init::<4>;
        c08_loser_tree_update_k2_bounded = check_update::<2>;
        c08_loser_tree_update_k3_bounded = check_update::<3>;
        c08_loser_tree_update_k4_bounded = check_update::<4>;
    }
}
