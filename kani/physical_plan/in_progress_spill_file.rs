// Kani support for spill/in_progress_spill_file.rs (used by the C16 harnesses in spill_pool.rs):
// a way to build an InProgressSpillFile without a real SpillManager / temp file, and the
// nondeterministic stand-ins for its I/O methods (Arrow IPC + file I/O are outside CBMC).
#[allow(unused_qualifications, unused_imports, dead_code, clippy::all)]
pub(crate) mod verif_kani {
    use super::*;
    use std::mem::MaybeUninit;

    /// An Arc<SpillManager> whose payload is never initialised, never read and never dropped
    /// (one handle is leaked so that the count cannot reach zero).  Every method of
    /// InProgressSpillFile that would read it is stubbed in the harnesses.
    pub(crate) fn forged_manager() -> Arc<SpillManager> {
        let a: Arc<MaybeUninit<SpillManager>> = Arc::new(MaybeUninit::uninit());
        let b: Arc<SpillManager> = unsafe { Arc::from_raw(Arc::into_raw(a) as *const SpillManager) };
        std::mem::forget(Arc::clone(&b));
        b
    }
    pub(crate) fn forged_in_progress(mgr: &Arc<SpillManager>) -> InProgressSpillFile {
        InProgressSpillFile { spill_writer: Arc::clone(mgr), writer: None, in_progress_file: None }
    }
    fn err() -> datafusion_common::DataFusionError { datafusion_common::DataFusionError::Internal(String::new()) }
    /// fault model of the property: every I/O step may fail
    pub(crate) fn stub_append_batch(_s: &mut InProgressSpillFile, _b: &RecordBatch) -> Result<usize> {
        if kani::any() { Ok(kani::any()) } else { Err(err()) }
    }
    pub(crate) fn stub_flush(_s: &mut InProgressSpillFile) -> Result<()> {
        if kani::any() { Ok(()) } else { Err(err()) }
    }
    pub(crate) fn stub_finish(_s: &mut InProgressSpillFile) -> Result<Option<Arc<dyn SpillFile>>> {
        if kani::any() { Ok(None) } else { Err(err()) }
    }
}
