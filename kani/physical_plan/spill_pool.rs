// Kani harnesses for spill/spill_pool.rs (property C16, exit-path part): after EVERY return of
// SpillPoolSink::push_batch -- success or failure of any I/O step -- the file it worked on is
// either back in `open_write_files` or marked `writer_finished`; otherwise nobody would ever
// finish it and the reader would wait for it forever.
#[allow(unused_qualifications, unused_imports, dead_code, clippy::all)]
mod verif_kani {
    use super::*;
    use crate::spill::in_progress_spill_file::verif_kani::{forged_in_progress, forged_manager, stub_append_batch, stub_finish, stub_flush};
    use std::mem::MaybeUninit;

    fn stub_lock_slow(_m: &parking_lot::RawMutex, _t: Option<std::time::Instant>) -> bool { kani::assume(false); true }
    fn stub_unlock_slow(_m: &parking_lot::RawMutex, _f: bool) { kani::assume(false); }
    fn stub_create(_m: &SpillManager, _msg: &str) -> Result<InProgressSpillFile> {
        if kani::any() { Ok(forged_in_progress(&forged_manager())) } else { Err(datafusion_common::DataFusionError::Internal(String::new())) }
    }
    fn stub_num_rows(_b: &RecordBatch) -> usize { kani::any() }
    fn stub_mem_size(_b: &RecordBatch) -> usize { kani::any() }

    fn new_file(mgr: &Arc<SpillManager>, finished: bool) -> Arc<Mutex<ActiveSpillFileShared>> {
        Arc::new(Mutex::new(ActiveSpillFileShared {
            writer: if finished { None } else { Some(forged_in_progress(mgr)) },
            file: None,
            batches_written: kani::any(),
            estimated_size: kani::any(),
            writer_finished: finished,
            waker: None,
        }))
    }

    /// push_batch on a pool that has one open write file
    #[kani::proof]
    #[kani::unwind(4)]
    #[kani::stub(parking_lot::RawMutex::lock_slow, stub_lock_slow)]
    #[kani::stub(parking_lot::RawMutex::unlock_slow, stub_unlock_slow)]
    #[kani::stub(arrow::array::RecordBatch::num_rows, stub_num_rows)]
    #[kani::stub(arrow::array::RecordBatch::get_array_memory_size, stub_mem_size)]
    #[kani::stub(crate::spill::in_progress_spill_file::InProgressSpillFile::append_batch, stub_append_batch)]
    #[kani::stub(crate::spill::in_progress_spill_file::InProgressSpillFile::flush, stub_flush)]
    #[kani::stub(crate::spill::in_progress_spill_file::InProgressSpillFile::finish, stub_finish)]
    #[kani::stub(crate::spill::spill_manager::SpillManager::create_in_progress_file, stub_create)]
    fn c16_push_batch_existing_file_exit_paths() {
        let mgr = forged_manager();
        let file = new_file(&mgr, false);
        { let mut f = file.lock(); kani::assume(f.estimated_size <= usize::MAX / 2 && f.batches_written <= usize::MAX / 2); }
        let w0 = file.lock().batches_written;
        let mut files = VecDeque::new();
        files.push_back(Arc::clone(&file));
        let mut open = VecDeque::new();
        open.push_back(Arc::clone(&file));
        let shared = Arc::new(Mutex::new(SpillPoolShared {
            files, spill_manager: Arc::clone(&mgr), waker: None, open_write_files: open, remaining_writer_count: 1,
        }));
        let sink = SpillPoolSink { max_file_size_bytes: kani::any(), shared: Arc::clone(&shared) };
        let raw: MaybeUninit<RecordBatch> = MaybeUninit::uninit();
        let batch: &RecordBatch = unsafe { &*raw.as_ptr() }; // only reached through the two stubbed accessors
        let res = sink.push_batch(batch);
        let ok = res.is_ok();
        std::mem::forget(res);
        let requeued = shared.lock().open_write_files.len() == 1;
        let (finished, has_writer, w1) = { let f = file.lock(); (f.writer_finished, f.writer.is_some(), f.batches_written) };
        // exit-path postcondition (both for Ok and for Err)
        assert!(requeued || finished, "C16.push_batch.file_requeued_or_finished_on_every_exit");
        assert!(!(requeued && finished), "C16.push_batch.finished_file_not_requeued");
        assert!(requeued == has_writer || !ok, "C16.push_batch.requeued_file_keeps_its_writer");
        assert!(shared.lock().files.len() == 1, "C16.push_batch.file_stays_visible_to_the_reader");
        if ok { assert!(w1 == w0 + 1 || w1 == w0, "C16.push_batch.ok_counts_at_most_one_batch"); }
        else { assert!(w1 == w0, "C16.push_batch.err_counts_no_batch"); }
        kani::cover!(ok && requeued);
        kani::cover!(ok && finished);
        kani::cover!(!ok);
        std::mem::forget(sink);
        std::mem::forget(shared);
        std::mem::forget(file);
    }

    /// the last writer going away finishes every file that is still open for writing
    #[kani::proof]
    #[kani::unwind(4)]
    #[kani::stub(parking_lot::RawMutex::lock_slow, stub_lock_slow)]
    #[kani::stub(parking_lot::RawMutex::unlock_slow, stub_unlock_slow)]
    #[kani::stub(crate::spill::in_progress_spill_file::InProgressSpillFile::finish, stub_finish)]
    fn c16_last_writer_drop_finishes_open_files() {
        let mgr = forged_manager();
        let file = new_file(&mgr, false);
        let mut files = VecDeque::new();
        files.push_back(Arc::clone(&file));
        let mut open = VecDeque::new();
        let is_open: bool = kani::any();
        if is_open { open.push_back(Arc::clone(&file)); } else { let mut f = file.lock(); f.writer_finished = true; std::mem::forget(f.writer.take()); }
        let writers: usize = kani::any();
        kani::assume(writers >= 1 && writers <= 3);
        let shared = Arc::new(Mutex::new(SpillPoolShared {
            files, spill_manager: Arc::clone(&mgr), waker: None, open_write_files: open, remaining_writer_count: writers,
        }));
        let sink = SpillPoolSink { max_file_size_bytes: 0, shared: Arc::clone(&shared) };
        drop(sink);
        let remaining = shared.lock().remaining_writer_count;
        assert!(remaining == writers - 1, "C16.drop.counts_down_by_one");
        if remaining == 0 {
            assert!(file.lock().writer_finished, "C16.drop.last_writer_finishes_every_open_file");
            assert!(shared.lock().open_write_files.is_empty(), "C16.drop.no_open_write_file_left");
        } else if is_open {
            assert!(!file.lock().writer_finished && shared.lock().open_write_files.len() == 1, "C16.drop.other_writers_keep_the_file_open");
        }
        kani::cover!(remaining == 0 && is_open);
        kani::cover!(remaining > 0);
        std::mem::forget(shared);
        std::mem::forget(file);
    }
}
