// Kani harnesses for joins/join_hash_map.rs (property C14): BOUNDED stand-in for the whole
// lookup API (hashbrown + chain walk + NULL mask + paging).  Build and probe hashes are
// concrete (so that hashbrown executes concretely inside CBMC); the NULL mask, the page size
// and therefore every resume offset are symbolic.
#[allow(unused_qualifications, unused_imports, dead_code, clippy::all)]
mod verif_kani {
    use super::*;

    const MAXP: usize = 12;

    /// reference: for every non-NULL probe row, every build row with an equal hash exactly once,
    /// probe rows ascending, build rows in chain order (newest inserted first)
    fn reference(build: &[u64], order_forward: bool, probe: &[u64], valid: &[bool], out: &mut [(u32, u64); MAXP]) -> usize {
        let mut n = 0;
        let mut p = 0;
        while p < probe.len() {
            if valid[p] {
                let mut k = 0;
                while k < build.len() {
                    // chain order: last inserted first
                    let b = if order_forward { build.len() - 1 - k } else { k };
                    if build[b] == probe[p] { out[n] = (p as u32, b as u64); n += 1; }
                    k += 1;
                }
            }
            p += 1;
        }
        n
    }

    fn paged_lookup<M: JoinHashMapType>(map: &M, probe: &[u64], nulls: Option<&NullBuffer>, limit: usize, out: &mut [(u32, u64); MAXP]) -> usize {
        let mut n = 0;
        let mut offset: MapOffset = (0, None);
        let mut a: Vec<u32> = Vec::new();
        let mut b: Vec<u64> = Vec::new();
        let mut rounds = 0;
        loop {
            let next = map.get_matched_indices_with_limit_offset(probe, nulls, limit, offset, &mut a, &mut b);
            assert!(a.len() == b.len(), "C14.page.index_vectors_same_length");
            assert!(a.len() <= limit, "C14.page.never_longer_than_limit");
            let mut i = 0;
            while i < a.len() { assert!(n < MAXP, "C14.page.no_surplus_matches"); out[n] = (a[i], b[i]); n += 1; i += 1; }
            match next {
                Some(o) => { offset = o; }
                None => break,
            }
            rounds += 1;
            assert!(rounds <= MAXP + 5, "C14.page.paging_terminates");
        }
        n
    }

    fn check(build: &[u64], forward: bool, probe: &[u64; 4], use_u64: bool) {
        let valid: [bool; 4] = kani::any();
        let use_mask: bool = kani::any();
        let limit: usize = kani::any();
        kani::assume(limit >= 1 && limit <= 6);
        if !use_mask { kani::assume(valid[0] && valid[1] && valid[2] && valid[3]); }
        let nulls = NullBuffer::from(valid.to_vec());
        let nulls_opt = if use_mask { Some(&nulls) } else { None };
        let mut got = [(0u32, 0u64); MAXP];
        let n = if use_u64 {
            let mut m = JoinHashMapU64::with_capacity(build.len());
            if forward { m.update_from_iter(Box::new(build.iter().enumerate()), 0); }
            else { m.update_from_iter(Box::new(build.iter().enumerate().rev()), 0); }
            // membership agrees with the build side
            let c = m.contain_hashes(probe);
            let mut i = 0;
            while i < 4 { assert!(c.value(i) == build.contains(&probe[i]), "C14.contain_hashes.agrees_with_build_side"); i += 1; }
            let n = paged_lookup(&m, probe, nulls_opt, limit, &mut got);
            std::mem::forget(m);
            n
        } else {
            let mut m = JoinHashMapU32::with_capacity(build.len());
            if forward { m.update_from_iter(Box::new(build.iter().enumerate()), 0); }
            else { m.update_from_iter(Box::new(build.iter().enumerate().rev()), 0); }
            let n = paged_lookup(&m, probe, nulls_opt, limit, &mut got);
            std::mem::forget(m);
            n
        };
        let mut exp = [(0u32, 0u64); MAXP];
        let e = reference(build, forward, probe, &valid, &mut exp);
        assert!(n == e, "C14.lookup.every_match_exactly_once_nothing_else");
        let mut i = 0;
        while i < e { assert!(got[i] == exp[i], "C14.lookup.pages_concatenate_to_the_unpaged_sequence"); i += 1; }
        kani::cover!(use_mask && !valid[1] && limit == 1);
        kani::cover!(limit == 2 && e >= 4);
        std::mem::forget(nulls);
    }

    #[kani::proof]
    #[kani::unwind(20)]
    fn c14_paged_lookup_bounded_chained_forward() { check(&[10, 10, 20, 30], true, &[10, 20, 30, 20], false); }

    #[kani::proof]
    #[kani::unwind(20)]
    fn c14_paged_lookup_bounded_chained_reversed_u64() { check(&[7, 9, 7, 9, 7], false, &[9, 7, 5, 7], true); }

    #[kani::proof]
    #[kani::unwind(20)]
    fn c14_paged_lookup_bounded_unique_keys() { check(&[1, 2, 3], true, &[3, 1, 4, 2], false); }

    #[kani::proof]
    #[kani::unwind(8)]
    fn c14x_build_only() {
        let build = [10u64, 10, 20];
        let mut m = JoinHashMapU32::with_capacity(3);
        m.update_from_iter(Box::new(build.iter().enumerate()), 0);
        assert!(m.next[1] == 1 && m.next[0] == 0 && m.next[2] == 0);
        std::mem::forget(m);
    }
}
