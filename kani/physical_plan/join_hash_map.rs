// (no registered harnesses: see /verif/attempts and DESIGN.md section 9.4)
#[allow(unused_qualifications, unused_imports, dead_code, clippy::all)]
mod verif_kani {}
