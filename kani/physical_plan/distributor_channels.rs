// Kani harnesses for repartition/distributor_channels.rs (property C15), BOUNDED and SEQUENTIAL:
// every history of K operations (send-poll / recv-poll / drop sender / drop receiver / clone sender)
// over two channels, each operation executed to completion on the real code, checked against a
// small reference model after every step.  Thread interleavings inside an operation are NOT explored.
#[allow(unused_qualifications, unused_imports, dead_code, clippy::all)]
mod verif_kani {
    use super::*;
    use std::task::Wake;

    fn stub_lock_slow(_m: &parking_lot::RawMutex, _t: Option<std::time::Instant>) -> bool { kani::assume(false); true }
    fn stub_unlock_slow(_m: &parking_lot::RawMutex, _f: bool) { kani::assume(false); }

    struct CountWaker(AtomicUsize);
    impl Wake for CountWaker {
        fn wake(self: Arc<Self>) { self.0.fetch_add(1, Ordering::SeqCst); }
        fn wake_by_ref(self: &Arc<Self>) { self.0.fetch_add(1, Ordering::SeqCst); }
    }
    fn woken(w: &Arc<CountWaker>) -> bool { w.0.load(Ordering::SeqCst) > 0 }

    const N: usize = 2; // channels
    const QMAX: usize = 4;

    /// reference model of one channel
    #[derive(Clone, Copy)]
    struct MChan { q: [u8; QMAX], len: usize, senders: usize, rx_alive: bool }

    struct Parked { w: Arc<CountWaker>, ch: usize, is_sender: bool }

    fn model_empty_count(m: &[MChan; N]) -> usize {
        let mut c = 0; let mut i = 0;
        while i < N { if m[i].rx_alive && m[i].len == 0 && m[i].senders > 0 { c += 1; } i += 1; }
        c
    }

    fn run_history<const K: usize>() {
        let (txs, rxs) = channels::<u8>(N);
        let gate = Arc::clone(&txs[0].gate);
        let chans: [Arc<Channel<u8>>; N] = [Arc::clone(&txs[0].channel), Arc::clone(&txs[1].channel)];
        let mut it = txs.into_iter();
        let mut tx: [Option<DistributionSender<u8>>; N] = [it.next(), it.next()];
        let mut it = rxs.into_iter();
        let mut rx: [Option<DistributionReceiver<u8>>; N] = [it.next(), it.next()];
        let mut extra: Option<(DistributionSender<u8>, usize)> = None;
        let mut m = [MChan { q: [0; QMAX], len: 0, senders: 1, rx_alive: true }; N];
        let mut parked: Vec<Parked> = Vec::new();

        let mut step = 0;
        while step < K {
            let op: u8 = kani::any();
            let c: usize = kani::any();
            kani::assume(op < 5 && c < N);
            let gate_closed_before = model_empty_count(&m) == 0;
            match op {
                0 => {
                    // one poll of a fresh send future (through the original sender, or the clone if the original is gone)
                    let sender: Option<&DistributionSender<u8>> = match (&tx[c], &extra) {
                        (Some(t), _) => Some(t),
                        (None, Some((t, ch))) if *ch == c => Some(t),
                        _ => None,
                    };
                    if let Some(t) = sender {
                        let v: u8 = kani::any();
                        let w = Arc::new(CountWaker(AtomicUsize::new(0)));
                        let waker = Waker::from(Arc::clone(&w));
                        let mut cx = Context::from_waker(&waker);
                        let mut fut = t.send(v);
                        let r = Pin::new(&mut fut).poll(&mut cx);
                        match r {
                            Poll::Ready(Ok(())) => {
                                assert!(m[c].rx_alive, "C15.send.succeeds_only_while_receiver_alive");
                                assert!(!gate_closed_before, "C15.send.blocked_while_no_open_channel_is_empty");
                                kani::assume(m[c].len < QMAX);
                                m[c].q[m[c].len] = v; m[c].len += 1;
                            }
                            Poll::Ready(Err(SendError(x))) => {
                                assert!(!m[c].rx_alive, "C15.send.fails_only_once_receiver_is_gone");
                                assert!(x == v, "C15.send.error_hands_the_value_back");
                            }
                            Poll::Pending => {
                                assert!(m[c].rx_alive && gate_closed_before, "C15.send.pending_only_when_gate_closed");
                                parked.push(Parked { w: Arc::clone(&w), ch: c, is_sender: true });
                            }
                        }
                        std::mem::forget(fut);
                    }
                }
                1 => {
                    if let Some(r) = rx[c].as_mut() {
                        let w = Arc::new(CountWaker(AtomicUsize::new(0)));
                        let waker = Waker::from(Arc::clone(&w));
                        let mut cx = Context::from_waker(&waker);
                        let mut fut = r.recv();
                        let res = Pin::new(&mut fut).poll(&mut cx);
                        match res {
                            Poll::Ready(Some(x)) => {
                                assert!(m[c].len > 0 && m[c].q[0] == x, "C15.recv.fifo_exactly_once");
                                let mut i = 1; while i < m[c].len { m[c].q[i - 1] = m[c].q[i]; i += 1; }
                                m[c].len -= 1;
                            }
                            Poll::Ready(None) => {
                                assert!(m[c].len == 0 && m[c].senders == 0, "C15.recv.eos_only_after_all_senders_gone_and_drained");
                            }
                            Poll::Pending => {
                                assert!(m[c].len == 0 && m[c].senders > 0, "C15.recv.pending_only_when_empty_and_senders_alive");
                                parked.push(Parked { w: Arc::clone(&w), ch: c, is_sender: false });
                            }
                        }
                    }
                }
                2 => {
                    if let Some(t) = tx[c].take() { drop(t); m[c].senders -= 1; }
                    else if matches!(&extra, Some((_, ch)) if *ch == c) { let (t, _) = extra.take().unwrap(); drop(t); m[c].senders -= 1; }
                }
                3 => {
                    if let Some(r) = rx[c].take() { drop(r); m[c].rx_alive = false; m[c].len = 0; }
                }
                _ => {
                    if extra.is_none() { if let Some(t) = &tx[c] { extra = Some((t.clone(), c)); m[c].senders += 1; } }
                }
            }
            // ---- invariants after every operation ----
            let mut i = 0;
            while i < N {
                let st = chans[i].state.lock();
                assert!(st.data.is_some() == m[i].rx_alive, "C15.inv.data_present_iff_receiver_alive");
                if let Some(d) = st.data.as_ref() {
                    assert!(d.len() == m[i].len, "C15.inv.queue_length_matches_history");
                    let mut j = 0; while j < m[i].len { assert!(d[j] == m[i].q[j], "C15.inv.queue_contents_in_send_order"); j += 1; }
                }
                assert!(st.recv_wakers.is_some() == (m[i].senders > 0), "C15.inv.recv_wakers_present_iff_senders_alive");
                assert!(chans[i].n_senders.load(Ordering::SeqCst) == m[i].senders, "C15.inv.sender_count");
                i += 1;
            }
            let ec = model_empty_count(&m);
            assert!(gate.empty_channels.load(Ordering::SeqCst) == ec, "C15.inv.empty_channel_counter_exact");
            assert!(gate.send_wakers.lock().is_some() == (ec == 0), "C15.inv.gate_closed_iff_no_open_empty_channel");
            // wake-up obligations (no lost wake-up): a parked sender is woken by the step that opens the gate or closes
            // its channel; a parked receiver by the step that delivers data or removes the last sender
            let mut p = 0;
            while p < parked.len() {
                let e = &parked[p];
                if e.is_sender {
                    if ec > 0 || !m[e.ch].rx_alive { assert!(woken(&e.w), "C15.wake.parked_sender_woken_when_gate_opens_or_channel_closes"); }
                } else if m[e.ch].len > 0 || m[e.ch].senders == 0 {
                    assert!(woken(&e.w), "C15.wake.parked_receiver_woken_on_data_or_eos");
                }
                p += 1;
            }
            step += 1;
        }
        kani::cover!(parked.len() >= 1);
        kani::cover!(m[0].len >= 2);
        std::mem::forget(parked);
        std::mem::forget((tx, rx, extra, gate, chans));
    }

    #[kani::proof]
    #[kani::unwind(7)]
    #[kani::stub(parking_lot::RawMutex::lock_slow, stub_lock_slow)]
    #[kani::stub(parking_lot::RawMutex::unlock_slow, stub_unlock_slow)]
    fn c15_histories_k3_bounded() { run_history::<3>(); }

    #[kani::proof]
    #[kani::unwind(8)]
    #[kani::stub(parking_lot::RawMutex::lock_slow, stub_lock_slow)]
    #[kani::stub(parking_lot::RawMutex::unlock_slow, stub_unlock_slow)]
    fn c15_histories_k4_bounded() { run_history::<4>(); }
}
