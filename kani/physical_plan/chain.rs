// (no registered harnesses: Kani twins of the C05 units on real Arrow arrays do not finish, see attempts/)
#[allow(unused_qualifications, unused_imports, dead_code, clippy::all)]
mod verif_kani {
    use super::*;
}
