// (no registered harnesses: a bounded harness of get_anti_indices on real Arrow arrays needed > 22 GB in CBMC and was dropped; see attempts/)
#[allow(unused_qualifications, unused_imports, dead_code, clippy::all)]
mod verif_kani {
    use super::*;
}
