// Kani harnesses for sorts/cursor.rs (property C08): the single-column comparator used
// by sort-preserving merge implements the requested ordering rule.
#[allow(unused_qualifications, unused_imports, dead_code, clippy::all)]
mod verif_kani {
    use super::*;
    use datafusion_execution::memory_pool::{MemoryConsumer, MemoryPool, UnboundedMemoryPool};

    /// inner cursor values with an arbitrary (symbolic) total order on 4 slots
    #[derive(Debug)]
    struct Inner { v: [u8; 4] }
    impl CursorValues for Inner {
        type SingleRowValue = u8;
        fn len(&self) -> usize { 4 }
        fn eq(l: &Self, l_idx: usize, r: &Self, r_idx: usize) -> bool { l.v[l_idx] == r.v[r_idx] }
        fn eq_to_previous(c: &Self, idx: usize) -> bool { c.v[idx] == c.v[idx - 1] }
        fn compare(l: &Self, l_idx: usize, r: &Self, r_idx: usize) -> Ordering { l.v[l_idx].cmp(&r.v[r_idx]) }
        fn get_value(&self, idx: usize) -> u8 { self.v[idx] }
        fn eq_to_single_row_value(l: &Self, l_idx: usize, r: &u8) -> bool { l.v[l_idx] == *r }
    }

    fn mk(options: SortOptions, pool: &Arc<dyn MemoryPool>) -> ArrayValues<Inner> {
        ArrayValues {
            values: Inner { v: kani::any() },
            null_threshold: kani::any(),
            options,
            _reservation: MemoryConsumer::new("c").register(pool),
        }
    }
    /// reference: NULL is the row position relative to the threshold (layout produced by `new`)
    fn ref_null(a: &ArrayValues<Inner>, i: usize) -> bool {
        if a.options.nulls_first { i < a.null_threshold } else { i >= a.null_threshold }
    }
    /// reference ordering rule: NULLs placed by nulls_first regardless of direction, values by
    /// the inner order, reversed iff descending
    fn ref_cmp(l: &ArrayValues<Inner>, li: usize, r: &ArrayValues<Inner>, ri: usize) -> Ordering {
        match (ref_null(l, li), ref_null(r, ri)) {
            (true, true) => Ordering::Equal,
            (true, false) => if l.options.nulls_first { Ordering::Less } else { Ordering::Greater },
            (false, true) => if l.options.nulls_first { Ordering::Greater } else { Ordering::Less },
            (false, false) => {
                let o = l.values.v[li].cmp(&r.values.v[ri]);
                if l.options.descending { o.reverse() } else { o }
            }
        }
    }

    #[kani::proof]
    #[kani::unwind(3)]
    fn c08_array_values_compare() {
        let pool: Arc<dyn MemoryPool> = Arc::new(UnboundedMemoryPool::default());
        let options = SortOptions { descending: kani::any(), nulls_first: kani::any() };
        let l = mk(options, &pool);
        let r = mk(options, &pool);
        let m = mk(options, &pool);
        let (li, ri, mi): (usize, usize, usize) = (kani::any(), kani::any(), kani::any());
        kani::assume(li < 4 && ri < 4 && mi < 4);
        assert!(l.is_null(li) == ref_null(&l, li), "C08.is_null.matches_layout");
        let c = <ArrayValues<Inner> as CursorValues>::compare(&l, li, &r, ri);
        assert!(c == ref_cmp(&l, li, &r, ri), "C08.compare.is_the_requested_rule");
        // consistency of eq with compare, antisymmetry, transitivity (total pre-order)
        assert!(<ArrayValues<Inner> as CursorValues>::eq(&l, li, &r, ri) == (c == Ordering::Equal), "C08.eq.iff_compare_equal");
        let rc = <ArrayValues<Inner> as CursorValues>::compare(&r, ri, &l, li);
        assert!(rc == c.reverse(), "C08.compare.antisymmetric");
        let lm = <ArrayValues<Inner> as CursorValues>::compare(&l, li, &m, mi);
        let mr = <ArrayValues<Inner> as CursorValues>::compare(&m, mi, &r, ri);
        if lm != Ordering::Greater && mr != Ordering::Greater { assert!(c != Ordering::Greater, "C08.compare.transitive"); }
        // value access agrees with NULL-ness
        assert!(l.get_value(li).is_none() == ref_null(&l, li), "C08.get_value.none_iff_null");
        assert!(<ArrayValues<Inner> as CursorValues>::eq_to_single_row_value(&l, li, &r.get_value(ri)) == (c == Ordering::Equal), "C08.eq_to_single_row_value.iff_equal");
        if li > 0 {
            let p = <ArrayValues<Inner> as CursorValues>::eq_to_previous(&l, li);
            assert!(p == (<ArrayValues<Inner> as CursorValues>::compare(&l, li, &l, li - 1) == Ordering::Equal), "C08.eq_to_previous.iff_equal");
        }
        kani::cover!(c == Ordering::Less && options.descending && !ref_null(&l, li) && !ref_null(&r, ri));
        kani::cover!(c == Ordering::Greater && ref_null(&l, li));
        std::mem::forget((l, r, m));
    }
}
