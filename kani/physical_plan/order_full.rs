// Kani harnesses for aggregates/order/full.rs (property C06, early-emission part):
// a group that may still receive rows is never emitted.
#[allow(unused_qualifications, unused_imports, dead_code, clippy::all)]
mod verif_kani {
    use super::*;

    fn any_state() -> State {
        match kani::any::<u8>() % 3 {
            0 => State::Start,
            1 => State::InProgress { current: kani::any() },
            _ => State::Complete,
        }
    }
    fn emit_first(e: &Option<EmitTo>) -> Option<usize> { match e { Some(EmitTo::First(n)) => Some(*n), _ => None } }

    /// emit_to: nothing before input, everything after input is done, and while in progress only
    /// the groups strictly before the current (still open) group: First(n) with 0 < n == current
    #[kani::proof]
    fn c06_full_emit_to() {
        let g = GroupOrderingFull { state: any_state() };
        let e = g.emit_to();
        match &g.state {
            State::Start => assert!(e.is_none(), "C06.full.emit_to.start_emits_nothing"),
            State::Complete => assert!(matches!(e, Some(EmitTo::All)), "C06.full.emit_to.complete_emits_all"),
            State::InProgress { current } => {
                if *current == 0 {
                    assert!(e.is_none(), "C06.full.emit_to.first_group_still_open");
                } else {
                    assert!(emit_first(&e) == Some(*current), "C06.full.emit_to.emits_exactly_closed_groups");
                    // the open group `current` is not among the first n emitted groups 0..n-1
                    assert!(emit_first(&e).unwrap() <= *current, "C06.full.emit_to.never_emits_open_group");
                }
                assert!(!matches!(e, Some(EmitTo::All)), "C06.full.emit_to.all_only_after_input_done");
            }
        }
        kani::cover!(emit_first(&e).is_some());
    }

    /// new_groups(total): current becomes the last group index; remove_groups(n) renumbers by
    /// exactly n (the contract of GroupValues::emit(First(n))); after that the open group keeps
    /// its identity: current' == current - n
    #[kani::proof]
    fn c06_full_transitions() {
        let cur0: usize = kani::any();
        let mut g = GroupOrderingFull { state: if kani::any() { State::Start } else { State::InProgress { current: cur0 } } };
        let started = matches!(g.state, State::InProgress { .. });
        let total: usize = kani::any();
        kani::assume(total >= 1 && (!started || cur0 <= total - 1));
        g.new_groups(total);
        assert!(matches!(g.state, State::InProgress { current } if current == total - 1), "C06.full.new_groups.current_is_last_group");
        // emit what emit_to allows, then renumber
        if let Some(EmitTo::First(n)) = g.emit_to() {
            g.remove_groups(n);
            assert!(matches!(g.state, State::InProgress { current } if current == total - 1 - n), "C06.full.remove_groups.shifts_by_n");
            assert!(matches!(g.state, State::InProgress { current } if current == 0), "C06.full.after_emit_open_group_is_group_zero");
            assert!(g.emit_to().is_none(), "C06.full.nothing_left_to_emit_until_new_groups");
        }
        // arbitrary legal renumbering
        let cur1 = match g.state { State::InProgress { current } => current, _ => 0 };
        let n: usize = kani::any();
        kani::assume(n <= cur1);
        g.remove_groups(n);
        assert!(matches!(g.state, State::InProgress { current } if current == cur1 - n), "C06.full.remove_groups.exact");
        g.input_done();
        assert!(matches!(g.emit_to(), Some(EmitTo::All)), "C06.full.input_done_then_all");
        g.reset();
        assert!(g.emit_to().is_none(), "C06.full.reset_emits_nothing");
        kani::cover!(total > 1);
    }

    /// illegal transitions panic where documented
    #[kani::proof]
    #[kani::should_panic]
    fn c06_full_illegal_transitions_panic() {
        let mut g = GroupOrderingFull { state: any_state() };
        match kani::any::<u8>() % 3 {
            0 => { kani::assume(!matches!(g.state, State::InProgress { .. })); g.remove_groups(kani::any()); }
            1 => { kani::assume(matches!(g.state, State::Complete)); g.new_groups(1); }
            _ => { let c: usize = kani::any(); let n: usize = kani::any(); kani::assume(n > c); g.state = State::InProgress { current: c }; g.remove_groups(n); }
        }
    }
}
