// Kani harnesses for datafusion/common/src/utils/mod.rs (property C09, search kernels of RANGE/GROUPS frames):
// bounded twins of the Verus unit `range_search_kernels` on the unextracted functions, Arrow row access stubbed.
#[allow(unused_qualifications, unused_imports, dead_code, clippy::all)]
mod verif_kani {
    use super::*;

    /// stub of get_row_at_idx: no Arrow access and no ScalarValue is built (constructing and dropping a
    /// Vec<ScalarValue> per probe made CBMC run for more than 15 minutes); the index of the row just fetched is
    /// recorded instead, and the comparison closures of the harnesses read it (`with_capacity(1)`: with an unallocated
    /// `Vec::new()` Kani 0.68 reports spurious `__rust_dealloc` failures)
    static mut LAST_ROW: usize = 0;
    fn stub_row(_columns: &[ArrayRef], idx: usize) -> Result<Vec<ScalarValue>> {
        unsafe { LAST_ROW = idx; }
        Ok(Vec::with_capacity(1))
    }
    fn row_index(_row: &[ScalarValue]) -> usize { unsafe { LAST_ROW } }
    const N: usize = 5;

    /// search_in_slice: first row of [low, high) failing the predicate (or high); arbitrary predicate over 9 rows
    #[kani::proof]
    #[kani::unwind(7)]
    #[kani::stub(get_row_at_idx, stub_row)]
    fn c09_search_in_slice_bounded() {
        let p: [bool; N] = kani::any();
        let low: usize = kani::any();
        let high: usize = kani::any();
        kani::assume(low <= high && high <= N);
        let cmp = |cur: &[ScalarValue], _t: &[ScalarValue]| -> Result<bool> { Ok(p[row_index(cur)]) };
        let r = search_in_slice(&[], &[], cmp, low, high);
        let r = match r { Ok(v) => v, Err(e) => { std::mem::forget(e); assert!(false, "C09.search_in_slice.no_error"); return; } };
        assert!(low <= r && r <= high, "C09.search_in_slice.result_within_bounds");
        let mut i = low;
        while i < r { assert!(p[i], "C09.search_in_slice.every_row_before_the_result_satisfies_the_predicate"); i += 1; }
        if r < high { assert!(!p[r], "C09.search_in_slice.result_is_the_first_failing_row"); }
        kani::cover!(r == high && high - low >= 4);
        kani::cover!(r == high && high - low == 2);
        kani::cover!(r > low && r < high);
    }

    /// find_bisect_point: partition point of a prefix-closed predicate on [low, high)
    #[kani::proof]
    #[kani::unwind(7)]
    #[kani::stub(get_row_at_idx, stub_row)]
    fn c09_find_bisect_point_bounded() {
        let low: usize = kani::any();
        let high: usize = kani::any();
        let cut: usize = kani::any();   // predicate true exactly below `cut`
        kani::assume(low <= high && high <= N);
        let cmp = |cur: &[ScalarValue], _t: &[ScalarValue]| -> Result<bool> { Ok(row_index(cur) < cut) };
        let r = find_bisect_point(&[], &[], cmp, low, high);
        let r = match r { Ok(v) => v, Err(e) => { std::mem::forget(e); assert!(false, "C09.find_bisect_point.no_error"); return; } };
        let expect = if cut <= low { low } else if cut >= high { high } else { cut };
        assert!(r == expect, "C09.find_bisect_point.is_the_partition_point");
        kani::cover!(r > low && r < high);
    }

    // ------------------------------------------------------------------------------------------------
    // property C12, float kernel: HashValue for f32 / f64 hashes the -0.0-normalised bit pattern, so values that
    // compare equal hash equally, and nothing else is merged.  Loop-free over all bit patterns: complete.
    // The hasher is a recorder: it returns / stores exactly the bytes it is given.
    // ------------------------------------------------------------------------------------------------
    use crate::hash_utils::HashValue;
    use std::hash::{BuildHasher, Hasher};
    struct Rec { buf: [u8; 8], n: usize }
    impl Hasher for Rec {
        fn write(&mut self, bytes: &[u8]) {
            let mut i = 0;
            while i < bytes.len() { if self.n < 8 { self.buf[self.n] = bytes[i]; } self.n += 1; i += 1; }
        }
        fn finish(&self) -> u64 { u64::from_ne_bytes(self.buf) }
    }
    struct RecBuild;
    impl BuildHasher for RecBuild { type Hasher = Rec; fn build_hasher(&self) -> Rec { Rec { buf: [0; 8], n: 0 } } }

    #[kani::proof]
    #[kani::unwind(10)]
    fn c12_hash_f64_agrees_with_equality() {
        let (a, b): (f64, f64) = (f64::from_bits(kani::any()), f64::from_bits(kani::any()));
        let (ha, hb) = (a.hash_one(&RecBuild), b.hash_one(&RecBuild));
        let (mut wa, mut wb) = (RecBuild.build_hasher(), RecBuild.build_hasher());
        a.hash_write(&mut wa); b.hash_write(&mut wb);
        if a == b { assert!(ha == hb && wa.buf == wb.buf, "C12.float.equal_values_hash_equally"); }
        if a.to_bits() == b.to_bits() { assert!(ha == hb, "C12.float.same_bits_hash_equally"); }
        if !a.is_nan() && !b.is_nan() && a != b { assert!(ha != hb && wa.buf != wb.buf, "C12.float.different_values_are_not_merged"); }
        // the one-shot and the streaming entry point feed the hasher the same data
        assert!(wa.n == 8 && u64::from_ne_bytes(wa.buf) == ha, "C12.float.hash_write_feeds_the_same_data_as_hash_one");
        kani::cover!(a == b && a.to_bits() != b.to_bits());
        kani::cover!(a.is_nan());
    }

    #[kani::proof]
    #[kani::unwind(10)]
    fn c12_hash_f32_agrees_with_equality() {
        let (a, b): (f32, f32) = (f32::from_bits(kani::any()), f32::from_bits(kani::any()));
        let (ha, hb) = (a.hash_one(&RecBuild), b.hash_one(&RecBuild));
        let (mut wa, mut wb) = (RecBuild.build_hasher(), RecBuild.build_hasher());
        a.hash_write(&mut wa); b.hash_write(&mut wb);
        if a == b { assert!(ha == hb && wa.buf == wb.buf, "C12.float.equal_values_hash_equally"); }
        if a.to_bits() == b.to_bits() { assert!(ha == hb, "C12.float.same_bits_hash_equally"); }
        if !a.is_nan() && !b.is_nan() && a != b { assert!(ha != hb && wa.buf != wb.buf, "C12.float.different_values_are_not_merged"); }
        assert!(wa.n == 4 && u64::from_ne_bytes(wa.buf) == ha, "C12.float.hash_write_feeds_the_same_data_as_hash_one");
        kani::cover!(a == b && a.to_bits() != b.to_bits());
        kani::cover!(a.is_nan());
    }

    // ------------------------------------------------------------------------------------------------
    // property C07, "emitting a prefix of groups": split_vec_min_alloc(v, n) returns the first n values and leaves the
    // rest, in order (both strategies: drain+collect when n*2 <= len, split_off+replace otherwise).  Bounded: len <= 5.
    // ------------------------------------------------------------------------------------------------
    #[kani::proof]
    #[kani::unwind(8)]
    fn c07_split_vec_min_alloc_bounded() {
        let len: usize = kani::any();
        kani::assume(len <= 5);
        let src: [u8; 5] = kani::any();
        let mut v: Vec<u8> = Vec::with_capacity(8);
        let mut i = 0;
        while i < len { v.push(src[i]); i += 1; }
        let n: usize = kani::any();
        kani::assume(n <= len);
        let first = split_vec_min_alloc(&mut v, n);
        assert!(first.len() == n && v.len() == len - n, "C07.split.lengths");
        let mut k = 0;
        while k < len {
            if k < n { assert!(first[k] == src[k], "C07.split.emitted_prefix_is_the_first_n_values_in_order"); }
            else { assert!(v[k - n] == src[k], "C07.split.remaining_values_keep_their_order"); }
            k += 1;
        }
        kani::cover!(n >= 1 && n * 2 <= len);
        kani::cover!(n * 2 > len && n < len);
        kani::cover!(n == len && len >= 2);
    }

    // ------------------------------------------------------------------------------------------------
    // property C05, join-type algebra: JoinType::{swap, is_outer, empty_build_side_produces_empty_result,
    // empty_map_produces_empty_result} against the nested-loop DEFINITION of each join type on inputs of at most one
    // row per side (presence of the left row, presence of the right row, whether they match): exhaustive, loop-free per case.
    // A result is the set of row shapes it contains.
    // ------------------------------------------------------------------------------------------------
    use crate::JoinType;
    const PAIR: u16 = 1;        // (l, r)
    const L_NULL: u16 = 2;      // (l, NULL)
    const NULL_R: u16 = 4;      // (NULL, r)
    const L_ONLY: u16 = 8;      // (l)            semi / anti output of the left side
    const R_ONLY: u16 = 16;     // (r)
    const L_MARK_T: u16 = 32;   // (l, mark = true)
    const L_MARK_F: u16 = 64;
    const R_MARK_T: u16 = 128;
    const R_MARK_F: u16 = 256;

    /// nested-loop evaluation of `left JOIN right` (the definition the property refers to)
    fn nested_loop(t: JoinType, l: bool, r: bool, m: bool) -> u16 {
        let hit = l && r && m;
        match t {
            JoinType::Inner => if hit { PAIR } else { 0 },
            JoinType::Left => if hit { PAIR } else if l { L_NULL } else { 0 },
            JoinType::Right => if hit { PAIR } else if r { NULL_R } else { 0 },
            JoinType::Full => if hit { PAIR } else { (if l { L_NULL } else { 0 }) | (if r { NULL_R } else { 0 }) },
            JoinType::LeftSemi => if hit { L_ONLY } else { 0 },
            JoinType::RightSemi => if hit { R_ONLY } else { 0 },
            JoinType::LeftAnti => if l && !hit { L_ONLY } else { 0 },
            JoinType::RightAnti => if r && !hit { R_ONLY } else { 0 },
            JoinType::LeftMark => if l { if hit { L_MARK_T } else { L_MARK_F } } else { 0 },
            JoinType::RightMark => if r { if hit { R_MARK_T } else { R_MARK_F } } else { 0 },
        }
    }
    /// the same rows with the two sides exchanged
    fn mirror(x: u16) -> u16 {
        let mut y = 0;
        if x & PAIR != 0 { y |= PAIR; }
        if x & L_NULL != 0 { y |= NULL_R; }
        if x & NULL_R != 0 { y |= L_NULL; }
        if x & L_ONLY != 0 { y |= R_ONLY; }
        if x & R_ONLY != 0 { y |= L_ONLY; }
        if x & L_MARK_T != 0 { y |= R_MARK_T; }
        if x & L_MARK_F != 0 { y |= R_MARK_F; }
        if x & R_MARK_T != 0 { y |= L_MARK_T; }
        if x & R_MARK_F != 0 { y |= L_MARK_F; }
        y
    }

    #[kani::proof]
    #[kani::unwind(11)]
    fn c05_join_type_algebra() {
        let all = [JoinType::Inner, JoinType::Left, JoinType::Right, JoinType::Full, JoinType::LeftSemi, JoinType::RightSemi,
                   JoinType::LeftAnti, JoinType::RightAnti, JoinType::LeftMark, JoinType::RightMark];
        let (l, r, m): (bool, bool, bool) = (kani::any(), kani::any(), kani::any());
        let mut i = 0;
        while i < 10 {
            let t = all[i];
            assert!(t.supports_swap(), "C05.join_type.every_type_can_be_swapped");
            let s = t.swap();
            // swapping the inputs and the join type gives the same rows, sides exchanged
            assert!(mirror(nested_loop(s, r, l, m)) == nested_loop(t, l, r, m), "C05.join_type.swap_is_the_join_of_the_exchanged_inputs");
            assert!(s.swap() == t, "C05.join_type.swap_is_an_involution");
            // with an empty build (left) side nothing can be produced, whatever the probe side holds
            if t.empty_build_side_produces_empty_result() { assert!(nested_loop(t, false, r, m) == 0, "C05.join_type.empty_build_side_claim_is_sound"); }
            // with no matchable key nothing can be produced
            if t.empty_map_produces_empty_result() { assert!(nested_loop(t, l, r, false) == 0, "C05.join_type.empty_map_claim_is_sound"); }
            if t.empty_map_produces_empty_result() { assert!(t.empty_build_side_produces_empty_result(), "C05.join_type.empty_map_claim_implies_empty_build_claim"); }
            // outer joins are exactly the ones that can pad a row with NULLs
            if nested_loop(t, l, r, m) & (L_NULL | NULL_R) != 0 { assert!(t.is_outer(), "C05.join_type.null_padding_only_in_outer_joins"); }
            i += 1;
        }
        kani::cover!(l && r && !m);
    }

    /// the two claims are not only sound but exact: a join type for which the claim is false can produce a row
    #[kani::proof]
    #[kani::unwind(11)]
    fn c05_join_type_emptiness_claims_are_exact() {
        let all = [JoinType::Inner, JoinType::Left, JoinType::Right, JoinType::Full, JoinType::LeftSemi, JoinType::RightSemi,
                   JoinType::LeftAnti, JoinType::RightAnti, JoinType::LeftMark, JoinType::RightMark];
        let mut i = 0;
        while i < 10 {
            let t = all[i];
            let some_row_without_build = nested_loop(t, false, true, false) != 0 || nested_loop(t, false, true, true) != 0;
            assert!(t.empty_build_side_produces_empty_result() == !some_row_without_build, "C05.join_type.empty_build_side_claim_is_exact");
            let some_row_without_match = nested_loop(t, true, true, false) != 0 || nested_loop(t, true, false, false) != 0 || nested_loop(t, false, true, false) != 0;
            assert!(t.empty_map_produces_empty_result() == !some_row_without_match, "C05.join_type.empty_map_claim_is_exact");
            let can_pad = (nested_loop(t, true, false, false) | nested_loop(t, false, true, false) | nested_loop(t, true, true, false)) & (L_NULL | NULL_R) != 0;
            assert!(t.is_outer() == can_pad, "C05.join_type.is_outer_is_exact");
            i += 1;
        }
    }
}
