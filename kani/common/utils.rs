// Kani harnesses for datafusion/common/src/utils/mod.rs (property C09, search kernels of RANGE/GROUPS frames):
// bounded twins of the Verus unit `range_search_kernels` on the unextracted functions, Arrow row access stubbed.
#[allow(unused_qualifications, unused_imports, dead_code, clippy::all)]
mod verif_kani {
    use super::*;

    /// stub of get_row_at_idx: no Arrow access and no ScalarValue is built (constructing and dropping a
    /// Vec<ScalarValue> per probe made CBMC run for more than 15 minutes); the index of the row just fetched is
    /// recorded instead, and the comparison closures of the harnesses read it (`with_capacity(1)`: with an unallocated
    /// `Vec::new()` Kani 0.68 reports spurious `__rust_dealloc` failures)
    static mut LAST_ROW: usize = 0;
    fn stub_row(_columns: &[ArrayRef], idx: usize) -> Result<Vec<ScalarValue>> {
        unsafe { LAST_ROW = idx; }
        Ok(Vec::with_capacity(1))
    }
    fn row_index(_row: &[ScalarValue]) -> usize { unsafe { LAST_ROW } }
    const N: usize = 5;

    /// search_in_slice: first row of [low, high) failing the predicate (or high); arbitrary predicate over 9 rows
    #[kani::proof]
    #[kani::unwind(7)]
    #[kani::stub(get_row_at_idx, stub_row)]
    fn c09_search_in_slice_bounded() {
        let p: [bool; N] = kani::any();
        let low: usize = kani::any();
        let high: usize = kani::any();
        kani::assume(low <= high && high <= N);
        let cmp = |cur: &[ScalarValue], _t: &[ScalarValue]| -> Result<bool> { Ok(p[row_index(cur)]) };
        let r = search_in_slice(&[], &[], cmp, low, high);
        let r = match r { Ok(v) => v, Err(e) => { std::mem::forget(e); assert!(false, "C09.search_in_slice.no_error"); return; } };
        assert!(low <= r && r <= high, "C09.search_in_slice.result_within_bounds");
        let mut i = low;
        while i < r { assert!(p[i], "C09.search_in_slice.every_row_before_the_result_satisfies_the_predicate"); i += 1; }
        if r < high { assert!(!p[r], "C09.search_in_slice.result_is_the_first_failing_row"); }
        kani::cover!(r == high && high - low >= 4);
        kani::cover!(r == high && high - low == 2);
        kani::cover!(r > low && r < high);
    }

    /// find_bisect_point: partition point of a prefix-closed predicate on [low, high)
    #[kani::proof]
    #[kani::unwind(7)]
    #[kani::stub(get_row_at_idx, stub_row)]
    fn c09_find_bisect_point_bounded() {
        let low: usize = kani::any();
        let high: usize = kani::any();
        let cut: usize = kani::any();   // predicate true exactly below `cut`
        kani::assume(low <= high && high <= N);
        let cmp = |cur: &[ScalarValue], _t: &[ScalarValue]| -> Result<bool> { Ok(row_index(cur) < cut) };
        let r = find_bisect_point(&[], &[], cmp, low, high);
        let r = match r { Ok(v) => v, Err(e) => { std::mem::forget(e); assert!(false, "C09.find_bisect_point.no_error"); return; } };
        let expect = if cut <= low { low } else if cut >= high { high } else { cut };
        assert!(r == expect, "C09.find_bisect_point.is_the_partition_point");
        kani::cover!(r > low && r < high);
    }
}
