// Kani harnesses for datafusion/common/src/utils/mod.rs (property C09, search kernels of RANGE/GROUPS frames):
// bounded twins of the Verus unit `range_search_kernels` on the unextracted functions, Arrow row access stubbed.
#[allow(unused_qualifications, unused_imports, dead_code, clippy::all)]
mod verif_kani {
    use super::*;

    /// stub of get_row_at_idx: no Arrow access and no ScalarValue is built (constructing and dropping a
    /// Vec<ScalarValue> per probe made CBMC run for more than 15 minutes); the index of the row just fetched is
    /// recorded instead, and the comparison closures of the harnesses read it (`with_capacity(1)`: with an unallocated
    /// `Vec::new()` Kani 0.68 reports spurious `__rust_dealloc` failures)
    static mut LAST_ROW: usize = 0;
    fn stub_row(_columns: &[ArrayRef], idx: usize) -> Result<Vec<ScalarValue>> {
        unsafe { LAST_ROW = idx; }
        Ok(Vec::with_capacity(1))
    }
    fn row_index(_row: &[ScalarValue]) -> usize { unsafe { LAST_ROW } }
    const N: usize = 5;

    /// search_in_slice: first row of [low, high) failing the predicate (or high); arbitrary predicate over 9 rows
    #[kani::proof]
    #[kani::unwind(7)]
    #[kani::stub(get_row_at_idx, stub_row)]
    fn c09_search_in_slice_bounded() {
        let p: [bool; N] = kani::any();
        let low: usize = kani::any();
        let high: usize = kani::any();
        kani::assume(low <= high && high <= N);
        let cmp = |cur: &[ScalarValue], _t: &[ScalarValue]| -> Result<bool> { Ok(p[row_index(cur)]) };
        let r = search_in_slice(&[], &[], cmp, low, high);
        let r = match r { Ok(v) => v, Err(e) => { std::mem::forget(e); assert!(false, "C09.search_in_slice.no_error"); return; } };
        assert!(low <= r && r <= high, "C09.search_in_slice.result_within_bounds");
        let mut i = low;
        while i < r { assert!(p[i], "C09.search_in_slice.every_row_before_the_result_satisfies_the_predicate"); i += 1; }
        if r < high { assert!(!p[r], "C09.search_in_slice.result_is_the_first_failing_row"); }
        kani::cover!(r == high && high - low >= 4);
        kani::cover!(r == high && high - low == 2);
        kani::cover!(r > low && r < high);
    }

    /// find_bisect_point: partition point of a prefix-closed predicate on [low, high)
    #[kani::proof]
    #[kani::unwind(7)]
    #[kani::stub(get_row_at_idx, stub_row)]
    fn c09_find_bisect_point_bounded() {
        let low: usize = kani::any();
        let high: usize = kani::any();
        let cut: usize = kani::any();   // predicate true exactly below `cut`
        kani::assume(low <= high && high <= N);
        let cmp = |cur: &[ScalarValue], _t: &[ScalarValue]| -> Result<bool> { Ok(row_index(cur) < cut) };
        let r = find_bisect_point(&[], &[], cmp, low, high);
        let r = match r { Ok(v) => v, Err(e) => { std::mem::forget(e); assert!(false, "C09.find_bisect_point.no_error"); return; } };
        let expect = if cut <= low { low } else if cut >= high { high } else { cut };
        assert!(r == expect, "C09.find_bisect_point.is_the_partition_point");
        kani::cover!(r > low && r < high);
    }

    // ------------------------------------------------------------------------------------------------
    // property C12, float kernel: HashValue for f32 / f64 hashes the -0.0-normalised bit pattern, so values that
    // compare equal hash equally, and nothing else is merged.  Loop-free over all bit patterns: complete.
    // The hasher is a recorder: it returns / stores exactly the bytes it is given.
    // ------------------------------------------------------------------------------------------------
    use crate::hash_utils::HashValue;
    use std::hash::{BuildHasher, Hasher};
    struct Rec { buf: [u8; 8], n: usize }
    impl Hasher for Rec {
        fn write(&mut self, bytes: &[u8]) {
            let mut i = 0;
            while i < bytes.len() { if self.n < 8 { self.buf[self.n] = bytes[i]; } self.n += 1; i += 1; }
        }
        fn finish(&self) -> u64 { u64::from_ne_bytes(self.buf) }
    }
    struct RecBuild;
    impl BuildHasher for RecBuild { type Hasher = Rec; fn build_hasher(&self) -> Rec { Rec { buf: [0; 8], n: 0 } } }

    #[kani::proof]
    #[kani::unwind(10)]
    fn c12_hash_f64_agrees_with_equality() {
        let (a, b): (f64, f64) = (f64::from_bits(kani::any()), f64::from_bits(kani::any()));
        let (ha, hb) = (a.hash_one(&RecBuild), b.hash_one(&RecBuild));
        let (mut wa, mut wb) = (RecBuild.build_hasher(), RecBuild.build_hasher());
        a.hash_write(&mut wa); b.hash_write(&mut wb);
        if a == b { assert!(ha == hb && wa.buf == wb.buf, "C12.float.equal_values_hash_equally"); }
        if a.to_bits() == b.to_bits() { assert!(ha == hb, "C12.float.same_bits_hash_equally"); }
        if !a.is_nan() && !b.is_nan() && a != b { assert!(ha != hb && wa.buf != wb.buf, "C12.float.different_values_are_not_merged"); }
        // the one-shot and the streaming entry point feed the hasher the same data
        assert!(wa.n == 8 && u64::from_ne_bytes(wa.buf) == ha, "C12.float.hash_write_feeds_the_same_data_as_hash_one");
        kani::cover!(a == b && a.to_bits() != b.to_bits());
        kani::cover!(a.is_nan());
    }

    #[kani::proof]
    #[kani::unwind(10)]
    fn c12_hash_f32_agrees_with_equality() {
        let (a, b): (f32, f32) = (f32::from_bits(kani::any()), f32::from_bits(kani::any()));
        let (ha, hb) = (a.hash_one(&RecBuild), b.hash_one(&RecBuild));
        let (mut wa, mut wb) = (RecBuild.build_hasher(), RecBuild.build_hasher());
        a.hash_write(&mut wa); b.hash_write(&mut wb);
        if a == b { assert!(ha == hb && wa.buf == wb.buf, "C12.float.equal_values_hash_equally"); }
        if a.to_bits() == b.to_bits() { assert!(ha == hb, "C12.float.same_bits_hash_equally"); }
        if !a.is_nan() && !b.is_nan() && a != b { assert!(ha != hb && wa.buf != wb.buf, "C12.float.different_values_are_not_merged"); }
        assert!(wa.n == 4 && u64::from_ne_bytes(wa.buf) == ha, "C12.float.hash_write_feeds_the_same_data_as_hash_one");
        kani::cover!(a == b && a.to_bits() != b.to_bits());
        kani::cover!(a.is_nan());
    }

    // ------------------------------------------------------------------------------------------------
    // property C07, "emitting a prefix of groups": split_vec_min_alloc(v, n) returns the first n values and leaves the
    // rest, in order (both strategies: drain+collect when n*2 <= len, split_off+replace otherwise).  Bounded: len <= 5.
    // ------------------------------------------------------------------------------------------------
    #[kani::proof]
    #[kani::unwind(8)]
    fn c07_split_vec_min_alloc_bounded() {
        let len: usize = kani::any();
        kani::assume(len <= 5);
        let src: [u8; 5] = kani::any();
        let mut v: Vec<u8> = Vec::with_capacity(8);
        let mut i = 0;
        while i < len { v.push(src[i]); i += 1; }
        let n: usize = kani::any();
        kani::assume(n <= len);
        let first = split_vec_min_alloc(&mut v, n);
        assert!(first.len() == n && v.len() == len - n, "C07.split.lengths");
        let mut k = 0;
        while k < len {
            if k < n { assert!(first[k] == src[k], "C07.split.emitted_prefix_is_the_first_n_values_in_order"); }
            else { assert!(v[k - n] == src[k], "C07.split.remaining_values_keep_their_order"); }
            k += 1;
        }
        kani::cover!(n >= 1 && n * 2 <= len);
        kani::cover!(n * 2 > len && n < len);
        kani::cover!(n == len && len >= 2);
    }
}
