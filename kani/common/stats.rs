#[allow(dead_code)] mod verif_kani {}
#[allow(dead_code)] mod verif_kani_tmp {
    #[kani::proof] fn tmp_fail() { let a: u8 = kani::any(); let b: u8 = kani::any(); kani::cover!(a == 7); assert!(a / 2 + b / 2 < 200, "my msg"); let _ = a + b; }
    #[kani::proof] fn tmp_ok() { let a: u8 = kani::any(); assert!(a as u16 + 1 > 0); }
}
