// Kani harnesses for datafusion/common/src/stats.rs (property C29: a statistic
// reported as Exact is exact).  Included by the cfg(kani) hook.
#[allow(unused_qualifications, unused_imports, dead_code, clippy::all)]
mod verif_kani {
    use super::*;

    fn any_prec() -> Precision<usize> {
        let v: usize = kani::any();
        match kani::any::<u8>() % 3 {
            0 => Precision::Exact(v),
            1 => Precision::Inexact(v),
            _ => Precision::Absent,
        }
    }
    fn is_absent(p: &Precision<usize>) -> bool { matches!(p, Precision::Absent) }

    /// strongest postcondition shared by add / sub / multiply, `f` = the exact
    /// mathematical operation (None when not representable), `sat` = saturated value
    fn check_arith(a: &Precision<usize>, b: &Precision<usize>, r: &Precision<usize>,
                   exact: Option<usize>, sat: usize) {
        match (a, b) {
            (Precision::Absent, _) | (_, Precision::Absent) =>
                assert!(is_absent(r), "C29.arith.absent_absorbs"),
            (Precision::Exact(_), Precision::Exact(_)) => match exact {
                Some(v) => assert!(*r == Precision::Exact(v), "C29.arith.exact_inputs_give_exact_math_result"),
                None => assert!(*r == Precision::Inexact(sat), "C29.arith.unrepresentable_result_is_inexact"),
            },
            _ => assert!(*r == Precision::Inexact(sat), "C29.arith.inexact_input_gives_inexact"),
        }
        // the property itself: Exact(v) only if both inputs exact and v is the true value
        if let Precision::Exact(v) = r {
            assert!(matches!((a, b), (Precision::Exact(_), Precision::Exact(_))) && exact == Some(*v),
                    "C29.arith.reported_exact_is_exact");
        }
    }
    fn vals(a: &Precision<usize>, b: &Precision<usize>) -> (usize, usize) {
        (a.get_value().copied().unwrap_or(0), b.get_value().copied().unwrap_or(0))
    }

    #[kani::proof]
    fn c29_add() {
        let (a, b) = (any_prec(), any_prec());
        let r = a.add(&b);
        let (x, y) = vals(&a, &b);
        let m = x as u128 + y as u128;
        let exact = if m <= usize::MAX as u128 { Some(m as usize) } else { None };
        check_arith(&a, &b, &r, exact, if m <= usize::MAX as u128 { m as usize } else { usize::MAX });
        kani::cover!(matches!(r, Precision::Exact(_)));
        kani::cover!(exact.is_none() && matches!(r, Precision::Inexact(_)));
    }

    #[kani::proof]
    fn c29_sub() {
        let (a, b) = (any_prec(), any_prec());
        let r = a.sub(&b);
        let (x, y) = vals(&a, &b);
        let exact = if x >= y { Some(x - y) } else { None };
        check_arith(&a, &b, &r, exact, if x >= y { x - y } else { 0 });
        kani::cover!(matches!(r, Precision::Exact(_)));
        kani::cover!(exact.is_none() && matches!(r, Precision::Inexact(_)));
    }

    #[kani::proof]
    fn c29_multiply() {
        let (a, b) = (any_prec(), any_prec());
        let r = a.multiply(&b);
        let (x, y) = vals(&a, &b);
        let m = x as u128 * y as u128;
        let exact = if m <= usize::MAX as u128 { Some(m as usize) } else { None };
        check_arith(&a, &b, &r, exact, if m <= usize::MAX as u128 { m as usize } else { usize::MAX });
        kani::cover!(matches!(r, Precision::Exact(_)));
        kani::cover!(exact.is_none() && matches!(r, Precision::Inexact(_)));
    }

    #[kani::proof]
    fn c29_min_max_to_inexact() {
        let (a, b) = (any_prec(), any_prec());
        let (x, y) = vals(&a, &b);
        let mx = a.max(&b);
        let mn = a.min(&b);
        let (hi, lo) = if x >= y { (x, y) } else { (y, x) };
        match (&a, &b) {
            (Precision::Absent, _) | (_, Precision::Absent) => {
                assert!(is_absent(&mx) && is_absent(&mn), "C29.minmax.absent_absorbs");
            }
            (Precision::Exact(_), Precision::Exact(_)) => {
                assert!(mx == Precision::Exact(hi), "C29.max.exact");
                assert!(mn == Precision::Exact(lo), "C29.min.exact");
            }
            _ => {
                assert!(mx == Precision::Inexact(hi), "C29.max.inexact");
                assert!(mn == Precision::Inexact(lo), "C29.min.inexact");
            }
        }
        // to_inexact never returns Exact and keeps the value
        let t = a.clone().to_inexact();
        assert!(!matches!(t, Precision::Exact(_)), "C29.to_inexact.never_exact");
        assert!(t.get_value() == a.get_value(), "C29.to_inexact.keeps_value");
        assert!(is_absent(&t) == is_absent(&a), "C29.to_inexact.keeps_absent");
        // is_exact / get_value agree with the variant
        assert!(a.is_exact() == match a { Precision::Exact(_) => Some(true), Precision::Inexact(_) => Some(false), _ => None },
                "C29.is_exact");
        kani::cover!(matches!(mx, Precision::Exact(_)));
        kani::cover!(matches!(mn, Precision::Inexact(_)));
    }

    /// with_estimated_selectivity: only an exact zero stays exact.  The float
    /// arithmetic is irrelevant to exactness, so selectivity is drawn from a
    /// small set to keep symbolic f64 multiplication out of the formula.
    #[kani::proof]
    fn c29_selectivity() {
        let a = any_prec();
        let sel = match kani::any::<u8>() % 3 { 0 => 0.0f64, 1 => 0.5, _ => 1.0 };
        let v0 = a.get_value().copied();
        let was_exact_zero = a == Precision::Exact(0);
        let absent = is_absent(&a);
        let r = a.with_estimated_selectivity(sel);
        if was_exact_zero {
            assert!(r == Precision::Exact(0), "C29.selectivity.exact_zero_kept");
        } else {
            assert!(!matches!(r, Precision::Exact(_)), "C29.selectivity.anything_else_inexact");
        }
        assert!(is_absent(&r) == absent, "C29.selectivity.absent_kept");
        if sel == 1.0 && !absent && v0.unwrap() < (1usize << 52) {
            assert!(r.get_value().copied() == v0, "C29.selectivity.one_keeps_value");
        }
        kani::cover!(was_exact_zero);
        kani::cover!(matches!(r, Precision::Inexact(_)));
    }

    // ------------------------------------------------------------------
    // Statistics::with_fetch: row-count exactness after LIMIT/OFFSET.
    // Column statistics: 0..=1 columns (bounded in column count only); byte sizes
    // Absent so that the f64 ratio scaling is sliced away.
    // ------------------------------------------------------------------
    fn stub_format(_a: std::fmt::Arguments<'_>) -> String { String::new() }

    fn check_with_fetch(ncols: usize, single_partition: bool) {
        let nr = any_prec();
        let fetch: Option<usize> = if kani::any() { Some(kani::any()) } else { None };
        let skip: usize = kani::any();
        let n_partitions: usize = if single_partition { 1 } else { kani::any() };
        kani::assume(n_partitions >= 1);
        let ndv = any_prec();
        let nulls = any_prec();
        let mut cols = Vec::new();
        if ncols == 1 {
            let mut c = ColumnStatistics::new_unknown();
            c.distinct_count = ndv.clone();
            c.null_count = nulls.clone();
            cols.push(c);
        }
        let stats = Statistics { num_rows: nr.clone(), total_byte_size: Precision::Absent, column_statistics: cols };
        let res = stats.with_fetch(fetch, skip, n_partitions);
        let out = match res { Ok(s) => s, Err(e) => { std::mem::forget(e); assert!(false, "C29.with_fetch.no_error_expected"); return; } };
        let untouched = fetch.is_none() && skip == 0;
        let fetch_val = fetch.unwrap_or(usize::MAX);
        // ---- the property: an Exact row count is the number of rows LIMIT/OFFSET emits ----
        if let Precision::Exact(v) = out.num_rows {
            match nr {
                Precision::Exact(n) => {
                    if n_partitions == 1 {
                        let remaining = n.saturating_sub(skip);
                        let emitted = if remaining < fetch_val { remaining } else { fetch_val };
                        assert!(v == emitted, "C29.with_fetch.exact_rows_equal_rows_emitted");
                    } else {
                        // per-partition statistics scaled to the global view must not have wrapped
                        let per = {
                            let remaining = n.saturating_sub(skip);
                            if remaining < fetch_val { remaining } else { fetch_val }
                        };
                        if !(untouched || (n > skip && n <= fetch_val && skip == 0)) {
                            assert!(Some(v) == per.checked_mul(n_partitions), "C29.with_fetch.exact_scaled_rows_no_wrap");
                        } else {
                            assert!(v == n, "C29.with_fetch.identity_case_keeps_rows");
                        }
                    }
                }
                _ => assert!(false, "C29.with_fetch.exact_rows_only_from_exact_input"),
            }
        }
        // ---- column statistics: when rows were cut, nothing stays Exact ----
        let identity = untouched || match nr {
            Precision::Exact(n) | Precision::Inexact(n) => n > skip && n <= fetch_val && skip == 0,
            Precision::Absent => false,
        };
        if ncols == 1 {
            assert!(out.column_statistics.len() == 1, "C29.with_fetch.column_count_kept");
            let c = &out.column_statistics[0];
            if identity {
                assert!(c.distinct_count == ndv && c.null_count == nulls, "C29.with_fetch.identity_keeps_columns");
            } else {
                assert!(!matches!(c.distinct_count, Precision::Exact(_)), "C29.with_fetch.cut_distinct_not_exact");
                assert!(!matches!(c.null_count, Precision::Exact(_)), "C29.with_fetch.cut_nulls_not_exact");
                // NDV never exceeds the row estimate
                if let (Some(d), Some(r)) = (c.distinct_count.get_value(), out.num_rows.get_value()) {
                    assert!(*d <= *r, "C29.with_fetch.ndv_le_rows");
                }
            }
        }
        if !identity {
            assert!(!matches!(out.total_byte_size, Precision::Exact(_)), "C29.with_fetch.cut_bytes_not_exact");
        }
        kani::cover!(matches!(out.num_rows, Precision::Exact(_)) && !identity);
        kani::cover!(identity);
        std::mem::forget(out);
    }

    #[kani::proof]
    #[kani::unwind(3)]
    #[kani::stub(std::fmt::format, stub_format)]
    fn c29_with_fetch_single_partition() { check_with_fetch(0, true); }

    #[kani::proof]
    #[kani::unwind(3)]
    #[kani::stub(std::fmt::format, stub_format)]
    fn c29_with_fetch_rows_partitions() { check_with_fetch(0, false); }

    #[kani::proof]
    #[kani::unwind(3)]
    #[kani::stub(std::fmt::format, stub_format)]
    fn c29_with_fetch_one_column_bounded() { check_with_fetch(1, true); }
}
