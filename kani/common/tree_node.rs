// Kani harnesses for datafusion/common/src/tree_node.rs (property C42).
// Included into the real module by the cfg(kani) hook, so `super::*` is the
// real code; nothing here is compiled in a normal build.
#[allow(unused_qualifications, unused_imports, dead_code, clippy::all)]
mod verif_kani {
    use super::*;

    fn any_tnr() -> TreeNodeRecursion {
        match kani::any::<u8>() % 3 {
            0 => TreeNodeRecursion::Continue,
            1 => TreeNodeRecursion::Jump,
            _ => TreeNodeRecursion::Stop,
        }
    }
    fn mk_err() -> crate::DataFusionError {
        crate::DataFusionError::Internal(String::new())
    }

    // ------------------------------------------------------------------
    // complete (loop-free, every case): TreeNodeRecursion combinators
    // contract: the closure is called iff the documented state; its result
    // (Ok or Err) is passed through untouched; otherwise the documented
    // constant is returned.
    // ------------------------------------------------------------------
    #[kani::proof]
    fn c42_visit_children() {
        let s = any_tnr();
        let inner = any_tnr();
        let fail: bool = kani::any();
        let mut calls = 0u8;
        let res = s.visit_children(|| {
            calls += 1;
            if fail { Err(mk_err()) } else { Ok(inner) }
        });
        match s {
            TreeNodeRecursion::Continue => {
                assert!(calls == 1);
                if fail { assert!(res.is_err()); } else { assert!(matches!(&res, Ok(t) if *t == inner)); }
            }
            TreeNodeRecursion::Jump => {
                assert!(calls == 0);
                assert!(matches!(&res, Ok(TreeNodeRecursion::Continue)));
            }
            TreeNodeRecursion::Stop => {
                assert!(calls == 0);
                assert!(matches!(&res, Ok(TreeNodeRecursion::Stop)));
            }
        }
        kani::cover!(calls == 1 && !fail);
        std::mem::forget(res);
    }

    #[kani::proof]
    fn c42_visit_sibling() {
        let s = any_tnr();
        let inner = any_tnr();
        let fail: bool = kani::any();
        let mut calls = 0u8;
        let res = s.visit_sibling(|| {
            calls += 1;
            if fail { Err(mk_err()) } else { Ok(inner) }
        });
        match s {
            TreeNodeRecursion::Continue | TreeNodeRecursion::Jump => {
                assert!(calls == 1);
                if fail { assert!(res.is_err()); } else { assert!(matches!(&res, Ok(t) if *t == inner)); }
            }
            TreeNodeRecursion::Stop => {
                assert!(calls == 0);
                assert!(matches!(&res, Ok(TreeNodeRecursion::Stop)));
            }
        }
        kani::cover!(calls == 1 && !fail);
        std::mem::forget(res);
    }

    #[kani::proof]
    fn c42_visit_parent() {
        let s = any_tnr();
        let inner = any_tnr();
        let fail: bool = kani::any();
        let mut calls = 0u8;
        let res = s.visit_parent(|| {
            calls += 1;
            if fail { Err(mk_err()) } else { Ok(inner) }
        });
        match s {
            TreeNodeRecursion::Continue => {
                assert!(calls == 1);
                if fail { assert!(res.is_err()); } else { assert!(matches!(&res, Ok(t) if *t == inner)); }
            }
            TreeNodeRecursion::Jump => {
                assert!(calls == 0);
                assert!(matches!(&res, Ok(TreeNodeRecursion::Jump)));
            }
            TreeNodeRecursion::Stop => {
                assert!(calls == 0);
                assert!(matches!(&res, Ok(TreeNodeRecursion::Stop)));
            }
        }
        kani::cover!(calls == 1 && !fail);
        std::mem::forget(res);
    }

    // ------------------------------------------------------------------
    // complete: Transformed combinators.  data: u16 (full domain).
    // ------------------------------------------------------------------
    fn any_tr() -> Transformed<u16> {
        Transformed::new(kani::any(), kani::any(), any_tnr())
    }

    #[derive(Clone, Copy, PartialEq)]
    enum Which { Children, Sibling, Parent }

    fn check_transform(which: Which) {
        let t0 = any_tr();
        let (d0, f0, s0) = (t0.data, t0.transformed, t0.tnr);
        let out = any_tr();
        let (d1, f1, s1) = (out.data, out.transformed, out.tnr);
        let fail: bool = kani::any();
        let mut calls = 0u8;
        let mut seen = 0u16;
        let cl = |d: u16| {
            calls += 1;
            seen = d;
            if fail { Err(mk_err()) } else { Ok(out) }
        };
        let res = match which {
            Which::Children => t0.transform_children(cl),
            Which::Sibling => t0.transform_sibling(cl),
            Which::Parent => t0.transform_parent(cl),
        };
        let called = match (which, s0) {
            (_, TreeNodeRecursion::Continue) => true,
            (Which::Sibling, TreeNodeRecursion::Jump) => true,
            _ => false,
        };
        if called {
            assert!(calls == 1 && seen == d0);
            if fail {
                assert!(res.is_err());
            } else {
                // result of f, with the changed flag OR-ed in
                assert!(matches!(&res, Ok(t) if t.data == d1 && t.transformed == (f0 || f1) && t.tnr == s1));
            }
        } else {
            assert!(calls == 0);
            // Jump is consumed exactly by transform_children; Stop always propagates
            let s_expected = if which == Which::Children && s0 == TreeNodeRecursion::Jump {
                TreeNodeRecursion::Continue
            } else {
                s0
            };
            assert!(matches!(&res, Ok(t) if t.data == d0 && t.transformed == f0 && t.tnr == s_expected));
        }
        kani::cover!(called && !fail && f0 && !f1);
        kani::cover!(!called);
        std::mem::forget(res);
    }

    #[kani::proof]
    fn c42_transform_children() { check_transform(Which::Children); }
    #[kani::proof]
    fn c42_transform_sibling() { check_transform(Which::Sibling); }
    #[kani::proof]
    fn c42_transform_parent() { check_transform(Which::Parent); }

    #[kani::proof]
    fn c42_transform_data_update_map() {
        // transform_data: always calls f; flag is OR; tnr/data come from f
        let t0 = any_tr();
        let (d0, f0, s0) = (t0.data, t0.transformed, t0.tnr);
        let out = any_tr();
        let (d1, f1, s1) = (out.data, out.transformed, out.tnr);
        let fail: bool = kani::any();
        let mut calls = 0u8;
        let res = t0.transform_data(|d| {
            calls += 1;
            assert!(d == d0);
            if fail { Err(mk_err()) } else { Ok(out) }
        });
        assert!(calls == 1);
        if fail { assert!(res.is_err()); } else {
            assert!(matches!(&res, Ok(t) if t.data == d1 && t.transformed == (f0 || f1) && t.tnr == s1));
        }
        std::mem::forget(res);
        // update_data / map_data keep flag and tnr
        let t1 = Transformed::new(d0, f0, s0);
        let u = t1.update_data(|d| d.wrapping_add(1));
        assert!(u.data == d0.wrapping_add(1) && u.transformed == f0 && u.tnr == s0);
        let t2 = Transformed::new(d0, f0, s0);
        let m = t2.map_data(|d| if fail { Err(mk_err()) } else { Ok(d ^ 1) });
        if fail { assert!(m.is_err()); } else {
            assert!(matches!(&m, Ok(t) if t.data == (d0 ^ 1) && t.transformed == f0 && t.tnr == s0));
        }
        kani::cover!(!fail && f0);
        std::mem::forget(m);
    }

    // ------------------------------------------------------------------
    // bounded (iterator length <= 4): sibling iteration helpers
    // ------------------------------------------------------------------
    const N_IT: usize = 4;

    #[kani::proof]
    #[kani::unwind(6)]
    fn c42_apply_until_stop_bounded() {
        let len: usize = kani::any();
        kani::assume(len <= N_IT);
        let dec: [u8; N_IT] = kani::any();
        let fail_at: usize = kani::any(); // >= len: no failure
        let mut calls = 0usize;
        let res = (0..len).apply_until_stop(|i| {
            assert!(i == calls); // in order, each at most once
            calls += 1;
            if i == fail_at { return Err(mk_err()); }
            Ok(match dec[i] % 3 { 0 => TreeNodeRecursion::Continue, 1 => TreeNodeRecursion::Jump, _ => TreeNodeRecursion::Stop })
        });
        // reference
        let mut exp_calls = 0usize;
        let mut exp: Option<TreeNodeRecursion> = Some(TreeNodeRecursion::Continue);
        let mut i = 0;
        while i < len {
            exp_calls += 1;
            if i == fail_at { exp = None; break; }
            let t = match dec[i] % 3 { 0 => TreeNodeRecursion::Continue, 1 => TreeNodeRecursion::Jump, _ => TreeNodeRecursion::Stop };
            exp = Some(t);
            if t == TreeNodeRecursion::Stop { break; }
            i += 1;
        }
        assert!(calls == exp_calls);
        match exp {
            None => assert!(res.is_err()),
            Some(t) => assert!(matches!(&res, Ok(r) if *r == t)),
        }
        kani::cover!(len == N_IT && calls == 2);
        std::mem::forget(res);
    }

    #[kani::proof]
    #[kani::unwind(6)]
    fn c42_map_until_stop_bounded() {
        let len: usize = kani::any();
        kani::assume(len <= 3);
        let dec: [u8; 3] = kani::any();
        let chg: [bool; 3] = kani::any();
        let mut calls = 0usize;
        let res = (0..len as u16).map_until_stop_and_collect(|i| {
            assert!(i as usize == calls);
            calls += 1;
            let t = match dec[i as usize] % 3 { 0 => TreeNodeRecursion::Continue, 1 => TreeNodeRecursion::Jump, _ => TreeNodeRecursion::Stop };
            Ok(Transformed::new(i + 100, chg[i as usize], t))
        });
        let mut exp_calls = 0usize;
        let mut exp_t = TreeNodeRecursion::Continue;
        let mut exp_f = false;
        let mut i = 0;
        while i < len {
            if exp_t == TreeNodeRecursion::Stop { break; }
            exp_calls += 1;
            exp_t = match dec[i] % 3 { 0 => TreeNodeRecursion::Continue, 1 => TreeNodeRecursion::Jump, _ => TreeNodeRecursion::Stop };
            exp_f |= chg[i];
            i += 1;
        }
        assert!(calls == exp_calls);
        match &res {
            Ok(t) => {
                assert!(t.transformed == exp_f && t.tnr == exp_t && t.data.len() == len);
                let mut j = 0;
                while j < len {
                    // mapped prefix replaced, untouched suffix kept as is
                    assert!(t.data[j] == if j < exp_calls { j as u16 + 100 } else { j as u16 });
                    j += 1;
                }
            }
            Err(_) => assert!(false),
        }
        kani::cover!(len == 3 && calls == 2);
        std::mem::forget(res);
    }

    // ------------------------------------------------------------------
    // bounded whole-tree checks of the real generic default methods
    // ------------------------------------------------------------------
    #[derive(Debug, Clone, PartialEq)]
    struct N { id: u8, kids: Vec<N> }
    impl ConcreteTreeNode for N {
        fn children(&self) -> &[Self] { &self.kids }
        fn take_children(mut self) -> (Self, Vec<Self>) { let k = std::mem::take(&mut self.kids); (self, k) }
        fn with_new_children(mut self, children: Vec<Self>) -> Result<Self> { self.kids = children; Ok(self) }
    }
    fn leaf(id: u8) -> N { N { id, kids: vec![] } }
    // root(0) -> [1 -> [3], 2]
    fn tree4() -> N { N { id: 0, kids: vec![N { id: 1, kids: vec![leaf(3)] }, leaf(2)] } }
    fn dec3(d: u8) -> TreeNodeRecursion {
        match d % 3 { 0 => TreeNodeRecursion::Continue, 1 => TreeNodeRecursion::Jump, _ => TreeNodeRecursion::Stop }
    }

    #[kani::proof]
    #[kani::unwind(5)]
    fn c42_apply_tree4_bounded() {
        let t = tree4();
        let d: [u8; 4] = kani::any();
        let mut log = [255u8; 4];
        let mut n = 0usize;
        let res = t.apply(|node| {
            log[n] = node.id;
            n += 1;
            Ok(dec3(d[node.id as usize]))
        });
        // reference pre-order with jump (prune) / stop honoured
        let dec = |i: usize| d[i] % 3;
        let mut exp = [255u8; 4];
        let mut m = 0usize;
        let mut stopped = false;
        exp[m] = 0; m += 1;
        if dec(0) == 2 { stopped = true; }
        if !stopped && dec(0) == 0 {
            exp[m] = 1; m += 1;
            if dec(1) == 2 { stopped = true; }
            if !stopped && dec(1) == 0 { exp[m] = 3; m += 1; if dec(3) == 2 { stopped = true; } }
            if !stopped { exp[m] = 2; m += 1; if dec(2) == 2 { stopped = true; } }
        }
        assert!(n == m);
        assert!(log == exp);
        assert!(matches!(&res, Ok(r) if (*r == TreeNodeRecursion::Stop) == stopped));
        kani::cover!(n == 4);
        kani::cover!(n == 2);
        std::mem::forget(res);
        std::mem::forget(t);
    }

    struct Vis<'a> { d: [u8; 4], u: [u8; 4], log: &'a mut [u8; 8], n: usize }
    impl<'n, 'a> TreeNodeVisitor<'n> for Vis<'a> {
        type Node = N;
        fn f_down(&mut self, node: &'n N) -> Result<TreeNodeRecursion> {
            self.log[self.n] = node.id; self.n += 1;
            Ok(dec3(self.d[node.id as usize]))
        }
        fn f_up(&mut self, node: &'n N) -> Result<TreeNodeRecursion> {
            self.log[self.n] = node.id + 100; self.n += 1;
            Ok(dec3(self.u[node.id as usize]))
        }
    }

    // reference semantics of a combined (down/up) walk over tree4, written
    // independently of the combinators: returns the recursion state
    fn ref_visit(id: usize, d: &[u8; 4], u: &[u8; 4], log: &mut [u8; 8], n: &mut usize) -> u8 {
        const KIDS: [&[usize]; 4] = [&[1, 2], &[3], &[], &[]];
        log[*n] = id as u8; *n += 1;
        let mut st = d[id] % 3;
        if st == 2 { return 2; }
        if st == 0 {
            // children, siblings continue on Continue|Jump
            let mut c = 0u8;
            let mut k = 0;
            while k < KIDS[id].len() {
                c = ref_visit(KIDS[id][k], d, u, log, n);
                if c == 2 { return 2; }
                k += 1;
            }
            st = c;
        } else {
            // Jump on the way down: skip children, continue with f_up
            st = 0;
        }
        if st == 0 {
            log[*n] = id as u8 + 100; *n += 1;
            u[id] % 3
        } else {
            st // Jump from below: skip f_up of this node, keep jumping
        }
    }

    #[kani::proof]
    #[kani::unwind(9)]
    fn c42_visit_tree4_bounded() {
        let t = tree4();
        let d: [u8; 4] = kani::any();
        let u: [u8; 4] = kani::any();
        let mut log = [255u8; 8];
        let mut v = Vis { d, u, log: &mut log, n: 0 };
        let res = t.visit(&mut v);
        let n = v.n;
        let mut exp = [255u8; 8];
        let mut m = 0usize;
        let st = ref_visit(0, &d, &u, &mut exp, &mut m);
        assert!(n == m);
        assert!(log == exp);
        assert!(matches!(&res, Ok(r) if *r == dec3(st)));
        kani::cover!(n == 8);
        kani::cover!(n == 3);
        std::mem::forget(res);
        std::mem::forget(t);
    }

    // reference for transform_down over tree4: ids of rewritten nodes get +10
    fn ref_down(node: &N, d: &[u8; 4], c: &[bool; 4], stop: &mut bool, any: &mut bool, calls: &mut u8) -> N {
        if *stop { return node.clone(); }
        *calls += 1;
        let id = node.id as usize;
        let mut out = N { id: if c[id] { node.id + 10 } else { node.id }, kids: vec![] };
        if c[id] { *any = true; }
        let st = d[id] % 3;
        if st == 2 { *stop = true; }
        let mut k = 0;
        while k < node.kids.len() {
            if st == 0 {
                out.kids.push(ref_down(&node.kids[k], d, c, stop, any, calls));
            } else {
                out.kids.push(node.kids[k].clone());
            }
            k += 1;
        }
        out
    }

    #[kani::proof]
    #[kani::unwind(5)]
    fn c42_transform_down_tree4_bounded() {
        let t = tree4();
        let d: [u8; 4] = kani::any();
        let c: [bool; 4] = kani::any();
        let mut calls = 0u8;
        let res = tree4().transform_down(|mut node| {
            calls += 1;
            let id = node.id as usize;
            if c[id] { node.id += 10; }
            Ok(Transformed::new(node, c[id], dec3(d[id])))
        });
        let mut stop = false;
        let mut any = false;
        let mut rcalls = 0u8;
        let exp = ref_down(&t, &d, &c, &mut stop, &mut any, &mut rcalls);
        assert!(calls == rcalls);
        match &res {
            Ok(tr) => {
                assert!(tr.data == exp);      // exactly the replacements the callback produced
                assert!(tr.transformed == any); // changed flag <=> some replacement reported
                assert!((tr.tnr == TreeNodeRecursion::Stop) == stop);
            }
            Err(_) => assert!(false),
        }
        kani::cover!(calls == 4 && any);
        kani::cover!(calls == 2);
        std::mem::forget(res);
        std::mem::forget(exp);
        std::mem::forget(t);
    }

    // reference for transform_up (post-order): Jump from a child skips the
    // parents' callbacks until the next sibling subtree; Stop ends everything
    fn ref_up(node: &N, d: &[u8; 4], c: &[bool; 4], any: &mut bool, calls: &mut u8) -> (N, u8) {
        let mut out = N { id: node.id, kids: vec![] };
        let mut st = 0u8;
        let mut k = 0;
        while k < node.kids.len() {
            if st != 2 {
                let (nk, s) = ref_up(&node.kids[k], d, c, any, calls);
                out.kids.push(nk);
                st = s;
            } else {
                out.kids.push(node.kids[k].clone());
            }
            k += 1;
        }
        if st == 0 {
            *calls += 1;
            let id = node.id as usize;
            if c[id] { out.id += 10; *any = true; }
            st = d[id] % 3;
        }
        (out, st)
    }

    #[kani::proof]
    #[kani::unwind(5)]
    fn c42_transform_up_tree4_bounded() {
        let t = tree4();
        let d: [u8; 4] = kani::any();
        let c: [bool; 4] = kani::any();
        let mut calls = 0u8;
        let res = tree4().transform_up(|mut node| {
            calls += 1;
            let id = node.id as usize;
            if c[id] { node.id += 10; }
            Ok(Transformed::new(node, c[id], dec3(d[id])))
        });
        let mut any = false;
        let mut rcalls = 0u8;
        let (exp, st) = ref_up(&t, &d, &c, &mut any, &mut rcalls);
        assert!(calls == rcalls);
        match &res {
            Ok(tr) => {
                assert!(tr.data == exp);
                assert!(tr.transformed == any);
                assert!(tr.tnr == dec3(st));
            }
            Err(_) => assert!(false),
        }
        kani::cover!(calls == 4 && any);
        kani::cover!(calls == 1);
        std::mem::forget(res);
        std::mem::forget(exp);
        std::mem::forget(t);
    }

    // ------------------------------------------------------------------
    // bounded: combined down/up rewriting (`handle_transform_recursion!`):
    // transform_down_up (closures) and rewrite (TreeNodeRewriter)
    // ------------------------------------------------------------------
    struct DU { d: [u8; 4], cd: [bool; 4], u: [u8; 4], cu: [bool; 4] }

    /// independent reference: returns (rewritten tree, final recursion state); logs f_down as id,
    /// f_up as id+100; `any` = some callback reported a change
    fn ref_du(node: &N, p: &DU, log: &mut [u8; 8], n: &mut usize, any: &mut bool) -> (N, u8) {
        let ix = (node.id % 10) as usize;
        log[*n] = ix as u8; *n += 1;
        let mut cur = N { id: node.id, kids: vec![] };
        if p.cd[ix] { cur.id += 10; *any = true; }
        let mut st = p.d[ix] % 3;
        if st == 2 {
            let mut k = 0; while k < node.kids.len() { cur.kids.push(node.kids[k].clone()); k += 1; }
            return (cur, 2); // Stop: children untouched, f_up not called
        }
        if st == 0 {
            let mut c = 0u8;
            let mut k = 0;
            while k < node.kids.len() {
                if c != 2 {
                    let (nk, s) = ref_du(&node.kids[k], p, log, n, any);
                    cur.kids.push(nk);
                    c = s;
                } else {
                    cur.kids.push(node.kids[k].clone());
                }
                k += 1;
            }
            st = c;
        } else {
            // Jump on the way down: children skipped (kept as they are), jump consumed
            let mut k = 0; while k < node.kids.len() { cur.kids.push(node.kids[k].clone()); k += 1; }
            st = 0;
        }
        if st == 0 {
            log[*n] = ix as u8 + 100; *n += 1;
            if p.cu[ix] { cur.id += 20; *any = true; }
            st = p.u[ix] % 3;
        }
        (cur, st)
    }

    fn check_du(use_rewriter: bool) {
        let p = DU { d: kani::any(), cd: kani::any(), u: kani::any(), cu: kani::any() };
        let mut log = [255u8; 8];
        let mut n = 0usize;
        let res = if use_rewriter {
            struct RW<'a> { p: &'a DU, log: &'a mut [u8; 8], n: &'a mut usize }
            impl<'a> TreeNodeRewriter for RW<'a> {
                type Node = N;
                fn f_down(&mut self, mut node: N) -> Result<Transformed<N>> {
                    let ix = (node.id % 10) as usize;
                    self.log[*self.n] = ix as u8; *self.n += 1;
                    if self.p.cd[ix] { node.id += 10; }
                    Ok(Transformed::new(node, self.p.cd[ix], dec3(self.p.d[ix])))
                }
                fn f_up(&mut self, mut node: N) -> Result<Transformed<N>> {
                    let ix = (node.id % 10) as usize;
                    self.log[*self.n] = ix as u8 + 100; *self.n += 1;
                    if self.p.cu[ix] { node.id += 20; }
                    Ok(Transformed::new(node, self.p.cu[ix], dec3(self.p.u[ix])))
                }
            }
            let mut rw = RW { p: &p, log: &mut log, n: &mut n };
            tree4().rewrite(&mut rw)
        } else {
            let cell = std::cell::RefCell::new((&mut log, &mut n));
            tree4().transform_down_up(
                |mut node| {
                    let ix = (node.id % 10) as usize;
                    { let mut g = cell.borrow_mut(); let k = *g.1; g.0[k] = ix as u8; *g.1 += 1; }
                    if p.cd[ix] { node.id += 10; }
                    Ok(Transformed::new(node, p.cd[ix], dec3(p.d[ix])))
                },
                |mut node| {
                    let ix = (node.id % 10) as usize;
                    { let mut g = cell.borrow_mut(); let k = *g.1; g.0[k] = ix as u8 + 100; *g.1 += 1; }
                    if p.cu[ix] { node.id += 20; }
                    Ok(Transformed::new(node, p.cu[ix], dec3(p.u[ix])))
                },
            )
        };
        let mut exp_log = [255u8; 8];
        let mut m = 0usize;
        let mut any = false;
        let t = tree4();
        let (exp, st) = ref_du(&t, &p, &mut exp_log, &mut m, &mut any);
        assert!(n == m, "C42.down_up.same_number_of_callbacks");
        assert!(log == exp_log, "C42.down_up.documented_pre_post_order_with_jump_and_stop");
        match &res {
            Ok(tr) => {
                assert!(tr.data == exp, "C42.down_up.tree_contains_exactly_the_replacements");
                assert!(tr.transformed == any, "C42.down_up.changed_flag_iff_some_replacement_reported");
                assert!(tr.tnr == dec3(st), "C42.down_up.final_recursion_state");
            }
            Err(_) => assert!(false, "C42.down_up.no_error"),
        }
        kani::cover!(n == 8 && any);
        kani::cover!(n == 3);
        std::mem::forget(res);
        std::mem::forget(exp);
        std::mem::forget(t);
    }

    #[kani::proof]
    #[kani::unwind(9)]
    fn c42_transform_down_up_tree4_bounded() { check_du(false); }

    #[kani::proof]
    #[kani::unwind(9)]
    fn c42_rewrite_tree4_bounded() { check_du(true); }

    // ------------------------------------------------------------------
    // bounded: TreeNodeContainer impls (Vec, Option, Box, 3-tuple) -- the sibling iteration used by
    // Expr / LogicalPlan `apply_children` / `map_children` (a separate copy of the loop in apply_until_stop)
    // ------------------------------------------------------------------
    #[derive(Debug, Clone, PartialEq, Default)]
    struct L(u8);
    impl<'a> TreeNodeContainer<'a, L> for L {
        fn apply_elements<F: FnMut(&'a L) -> Result<TreeNodeRecursion>>(&'a self, mut f: F) -> Result<TreeNodeRecursion> { f(self) }
        fn map_elements<F: FnMut(L) -> Result<Transformed<L>>>(self, mut f: F) -> Result<Transformed<L>> { f(self) }
    }
    fn container() -> (Vec<L>, Option<L>, Box<L>) { (vec![L(0), L(1)], Some(L(2)), Box::new(L(3))) }

    #[kani::proof]
    #[kani::unwind(6)]
    fn c42_containers_apply_bounded() {
        let c = container();
        let d: [u8; 4] = kani::any();
        let mut log = [255u8; 4];
        let mut n = 0usize;
        let res = c.apply_elements(|l: &L| { log[n] = l.0; n += 1; Ok(dec3(d[l.0 as usize])) });
        // reference: siblings in order; continue on Continue|Jump, stop at the first Stop; result = last decision
        let mut exp = [255u8; 4];
        let mut m = 0usize;
        let mut last = 0u8;
        let mut i = 0;
        while i < 4 { exp[m] = i as u8; m += 1; last = d[i] % 3; if last == 2 { break; } i += 1; }
        assert!(n == m && log == exp, "C42.containers.apply.siblings_in_order_until_stop");
        assert!(matches!(&res, Ok(r) if *r == dec3(last)), "C42.containers.apply.result_is_last_decision");
        kani::cover!(n == 4 && last == 1);
        kani::cover!(n == 2);
        std::mem::forget(res);
        std::mem::forget(c);
    }

    #[kani::proof]
    #[kani::unwind(6)]
    fn c42_containers_map_bounded() {
        let d: [u8; 4] = kani::any();
        let ch: [bool; 4] = kani::any();
        let mut calls = 0usize;
        let res = container().map_elements(|l: L| {
            assert!(l.0 as usize == calls, "C42.containers.map.in_order_each_once");
            calls += 1;
            let ix = l.0 as usize;
            Ok(Transformed::new(if ch[ix] { L(l.0 + 10) } else { l }, ch[ix], dec3(d[ix])))
        });
        let mut m = 0usize;
        let mut last = 0u8;
        let mut any = false;
        let mut exp = [0u8, 1, 2, 3];
        let mut i = 0;
        while i < 4 { m += 1; if ch[i] { exp[i] += 10; any = true; } last = d[i] % 3; if last == 2 { break; } i += 1; }
        assert!(calls == m, "C42.containers.map.stops_at_first_stop");
        match &res {
            Ok(t) => {
                assert!(t.data.0.len() == 2 && t.data.0[0].0 == exp[0] && t.data.0[1].0 == exp[1]
                        && t.data.1 == Some(L(exp[2])) && t.data.2.0 == exp[3], "C42.containers.map.exactly_the_replacements");
                assert!(t.transformed == any, "C42.containers.map.changed_flag_is_or");
                assert!(t.tnr == dec3(last), "C42.containers.map.result_is_last_decision");
            }
            Err(_) => assert!(false, "C42.containers.map.no_error"),
        }
        kani::cover!(calls == 4 && any);
        kani::cover!(calls == 1);
        std::mem::forget(res);
    }
}
