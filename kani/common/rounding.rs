// Kani harnesses for datafusion/common/src/rounding.rs (property C23: the float
// successor / predecessor used for strict interval bounds never skip a value).
#[allow(unused_qualifications, unused_imports, dead_code, clippy::all)]
mod verif_kani {
    use super::*;

    macro_rules! succ_pred_harness {
        ($name_up:ident, $name_down:ident, $name_rt:ident, $f:ty, $u:ty, $signbit:expr) => {
            /// every bit pattern of x, and every bit pattern of a candidate z in between
            #[kani::proof]
            fn $name_up() {
                let x = <$f>::from_bits(kani::any::<$u>());
                let z = <$f>::from_bits(kani::any::<$u>());
                let y = next_up(x);
                if x.is_nan() {
                    assert!(y.to_bits() == x.to_bits(), "C23.next_up.nan_is_fixed_point");
                } else if x == <$f>::INFINITY {
                    assert!(y == <$f>::INFINITY, "C23.next_up.pos_infinity_is_fixed_point");
                } else {
                    assert!(!y.is_nan(), "C23.next_up.never_produces_nan");
                    assert!(y >= x, "C23.next_up.not_below_argument");
                    // soundness core: no representable value lies strictly between x and next_up(x)
                    assert!(!(x < z && z < y), "C23.next_up.skips_no_value");
                    // strict successor except on -0.0, whose successor is +0.0 (numerically equal: conservative)
                    assert!(y > x || x.to_bits() == $signbit, "C23.next_up.strictly_above_except_negative_zero");
                    if x.to_bits() == 0 { assert!(y.to_bits() == 1, "C23.next_up.plus_zero_goes_to_smallest_subnormal"); }
                    if x.to_bits() == $signbit { assert!(y.to_bits() == 0, "C23.next_up.minus_zero_goes_to_plus_zero"); }
                }
                kani::cover!(x < 0.0 && y > x);
                kani::cover!(x > 0.0 && y == <$f>::INFINITY);
            }

            #[kani::proof]
            fn $name_down() {
                let x = <$f>::from_bits(kani::any::<$u>());
                let z = <$f>::from_bits(kani::any::<$u>());
                let y = next_down(x);
                if x.is_nan() {
                    assert!(y.to_bits() == x.to_bits(), "C23.next_down.nan_is_fixed_point");
                } else if x == <$f>::NEG_INFINITY {
                    assert!(y == <$f>::NEG_INFINITY, "C23.next_down.neg_infinity_is_fixed_point");
                } else {
                    assert!(!y.is_nan(), "C23.next_down.never_produces_nan");
                    assert!(y <= x, "C23.next_down.not_above_argument");
                    assert!(!(y < z && z < x), "C23.next_down.skips_no_value");
                    assert!(y < x || x.to_bits() == 0, "C23.next_down.strictly_below_except_positive_zero");
                    if x.to_bits() == 0 { assert!(y.to_bits() == $signbit, "C23.next_down.plus_zero_goes_to_minus_zero"); }
                    if x.to_bits() == $signbit { assert!(y.to_bits() == ($signbit | 1), "C23.next_down.minus_zero_goes_to_smallest_negative_subnormal"); }
                }
                kani::cover!(x > 0.0 && y < x);
                kani::cover!(x < 0.0 && y == <$f>::NEG_INFINITY);
            }

            /// inverse pair: next_down(next_up(x)) == x for every finite x (bit-exact away from zero)
            #[kani::proof]
            fn $name_rt() {
                let x = <$f>::from_bits(kani::any::<$u>());
                kani::assume(!x.is_nan() && x != <$f>::INFINITY && x != <$f>::NEG_INFINITY);
                let up = next_up(x);
                if up != <$f>::INFINITY {
                    let back = next_down(up);
                    assert!(back == x, "C23.round_trip.down_of_up_is_identity");
                    if x != 0.0 && up != 0.0 { assert!(back.to_bits() == x.to_bits(), "C23.round_trip.bit_exact_away_from_zero"); }
                }
                let down = next_down(x);
                if down != <$f>::NEG_INFINITY {
                    let back = next_up(down);
                    assert!(back == x, "C23.round_trip.up_of_down_is_identity");
                }
                kani::cover!(up != <$f>::INFINITY && x > 1.0);
            }
        };
    }
    succ_pred_harness!(c23_next_up_f64, c23_next_down_f64, c23_round_trip_f64, f64, u64, 0x8000_0000_0000_0000u64);
    succ_pred_harness!(c23_next_up_f32, c23_next_down_f32, c23_round_trip_f32, f32, u32, 0x8000_0000u32);
}
