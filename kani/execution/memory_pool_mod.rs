// Kani harnesses for datafusion/execution/src/memory_pool/mod.rs (property C17):
// the MemoryReservation ledger.  Invariant L: pool.reserved() == sum of the sizes of
// the live reservations (+ `other`, bytes held by reservations outside the harness).
#[allow(unused_qualifications, unused_imports, dead_code, clippy::all)]
mod verif_kani {
    use super::*;
    use std::sync::atomic::AtomicUsize;
    const Q: usize = usize::MAX / 8;

    /// pool double with a nondeterministic (but honest) try_grow: it either grants and adds, or
    /// refuses and changes nothing -- exactly the contract proved for the real pools.  Using it
    /// keeps the ledger proof modular: MemoryReservation is checked against the pool *contract*.
    #[derive(Debug)]
    struct ContractPool { used: AtomicUsize, grant: bool, registered: AtomicUsize }
    impl Display for ContractPool {
        fn fmt(&self, _f: &mut std::fmt::Formatter<'_>) -> std::fmt::Result { Ok(()) }
    }
    impl MemoryPool for ContractPool {
        fn name(&self) -> &str { "contract" }
        fn register(&self, _c: &MemoryConsumer) { self.registered.fetch_add(1, atomic::Ordering::Relaxed); }
        fn unregister(&self, _c: &MemoryConsumer) { self.registered.fetch_sub(1, atomic::Ordering::Relaxed); }
        fn grow(&self, _r: &MemoryReservation, a: usize) { self.used.fetch_add(a, atomic::Ordering::Relaxed); }
        fn shrink(&self, _r: &MemoryReservation, s: usize) { self.used.fetch_sub(s, atomic::Ordering::Relaxed); }
        fn try_grow(&self, _r: &MemoryReservation, a: usize) -> Result<()> {
            if self.grant { self.used.fetch_add(a, atomic::Ordering::Relaxed); Ok(()) }
            else { Err(datafusion_common::DataFusionError::ResourcesExhausted(String::new())) }
        }
        fn reserved(&self) -> usize { self.used.load(atomic::Ordering::Relaxed) }
    }
    fn stub_format(_a: std::fmt::Arguments<'_>) -> String { String::new() }

    struct World { cp: Arc<ContractPool>, r1: MemoryReservation, r2: MemoryReservation, s1: usize, s2: usize, other: usize }
    fn world() -> World {
        let grant: bool = kani::any();
        let cp = Arc::new(ContractPool { used: AtomicUsize::new(0), grant, registered: AtomicUsize::new(0) });
        let pool: Arc<dyn MemoryPool> = cp.clone();
        let r1 = MemoryConsumer::new("a").with_can_spill(kani::any()).register(&pool);
        // second reservation: same consumer (shares the registration) or a different one
        let r2 = if kani::any() { r1.new_empty() } else { MemoryConsumer::new("b").register(&pool) };
        let (s1, s2, other): (usize, usize, usize) = (kani::any(), kani::any(), kani::any());
        kani::assume(s1 <= Q && s2 <= Q && other <= Q);
        r1.size.store(s1, atomic::Ordering::Relaxed);
        r2.size.store(s2, atomic::Ordering::Relaxed);
        cp.used.store(s1 + s2 + other, atomic::Ordering::Relaxed);
        World { cp, r1, r2, s1, s2, other }
    }

    /// one ledger step (non-panicking domain) re-establishes L and changes the named
    /// reservation by exactly the stated delta
    #[kani::proof]
    #[kani::unwind(3)]
    #[kani::stub(std::fmt::format, stub_format)]
    fn c17_ledger_step() {
        let mut w = world();
        let c: usize = kani::any();
        kani::assume(c <= Q);
        let op: u8 = kani::any();
        kani::assume(op < 9);
        let grant = w.cp.grant;
        let mut extra: Option<MemoryReservation> = None;
        let mut exp1 = w.s1; // expected size of r1 afterwards
        match op {
            0 => { w.r1.grow(c); exp1 = w.s1 + c; }
            1 => {
                let res = w.r1.try_grow(c);
                let ok = res.is_ok();
                std::mem::forget(res);
                assert!(ok == grant, "C17.ledger.try_grow.outcome_is_pool_outcome");
                exp1 = if ok { w.s1 + c } else { w.s1 }; // a failed growth attempt changes nothing
            }
            2 => { kani::assume(c <= w.s1); w.r1.shrink(c); exp1 = w.s1 - c; }
            3 => {
                let res = w.r1.try_shrink(c);
                match &res {
                    Ok(n) => { assert!(c <= w.s1 && *n == w.s1 - c, "C17.ledger.try_shrink.ok_returns_new_size"); exp1 = w.s1 - c; }
                    Err(_) => { assert!(c > w.s1, "C17.ledger.try_shrink.err_only_beyond_size"); }
                }
                std::mem::forget(res);
            }
            4 => { let n = w.r1.free(); assert!(n == w.s1, "C17.ledger.free.returns_size"); exp1 = 0; }
            5 => { w.r1.resize(c); exp1 = c; }
            6 => {
                let res = w.r1.try_resize(c);
                let ok = res.is_ok();
                std::mem::forget(res);
                assert!(ok == (c <= w.s1 || grant), "C17.ledger.try_resize.fails_only_when_pool_refuses_growth");
                exp1 = if ok { c } else { w.s1 };
            }
            7 => {
                kani::assume(c <= w.s1);
                let r3 = w.r1.split(c);
                assert!(r3.size() == c, "C17.ledger.split.new_reservation_has_capacity");
                exp1 = w.s1 - c;
                extra = Some(r3);
            }
            _ => {
                let r3 = w.r1.take();
                assert!(r3.size() == w.s1, "C17.ledger.take.moves_everything");
                exp1 = 0;
                extra = Some(r3);
            }
        }
        let e = match &extra { Some(r) => r.size(), None => 0 };
        assert!(w.r1.size() == exp1, "C17.ledger.step.exact_delta_on_named_reservation");
        assert!(w.r2.size() == w.s2, "C17.ledger.step.other_reservation_untouched");
        assert!(w.cp.reserved() == w.r1.size() + w.r2.size() + e + w.other, "C17.ledger.step.reserved_equals_sum_of_live_reservations");
        // dropping the split-off reservation returns exactly its bytes
        drop(extra);
        assert!(w.cp.reserved() == w.r1.size() + w.r2.size() + w.other, "C17.ledger.drop.returns_its_bytes");
        kani::cover!(op == 1 && !grant);
        kani::cover!(op == 3 && c > w.s1);
        kani::cover!(op == 7 && c > 0);
        kani::cover!(op == 6 && c > w.s1 && grant);
        // dropping everything: reserved() goes back to the foreign bytes, every consumer unregistered
        let World { cp, r1, r2, other, .. } = w;
        drop(r1);
        drop(r2);
        assert!(cp.reserved() == other, "C17.ledger.drop_all.zero_once_all_dropped");
        assert!(cp.registered.load(atomic::Ordering::Relaxed) == 0, "C17.ledger.drop_all.all_consumers_unregistered");
    }

    /// shrink / split beyond the size panic (nothing is handed out that was not reserved)
    #[kani::proof]
    #[kani::unwind(3)]
    #[kani::should_panic]
    #[kani::stub(std::fmt::format, stub_format)]
    fn c17_ledger_shrink_beyond_size_panics() {
        let w = world();
        let c: usize = kani::any();
        kani::assume(c > w.s1);
        if kani::any() { w.r1.shrink(c); } else { let r3 = w.r1.split(c); std::mem::forget(r3); }
        std::mem::forget(w);
    }
}
