// Kani harnesses for datafusion/execution/src/memory_pool/mod.rs (property C17):
// the MemoryReservation ledger.  Invariant L: pool.reserved() == sum of the sizes of
// the live reservations (+ `other`, bytes held by reservations outside the harness).
#[allow(unused_qualifications, unused_imports, dead_code, clippy::all)]
mod verif_kani {
    use super::*;
    use std::sync::atomic::AtomicUsize;
    const Q: usize = usize::MAX / 8;

    /// pool double with a nondeterministic (but honest) try_grow: it either grants and adds, or
    /// refuses and changes nothing -- exactly the contract proved for the real pools.  Using it
    /// keeps the ledger proof modular: MemoryReservation is checked against the pool *contract*.
    #[derive(Debug)]
    struct ContractPool { used: AtomicUsize, grant: bool, registered: AtomicUsize }
    impl Display for ContractPool {
        fn fmt(&self, _f: &mut std::fmt::Formatter<'_>) -> std::fmt::Result { Ok(()) }
    }
    impl MemoryPool for ContractPool {
        fn name(&self) -> &str { "contract" }
        fn register(&self, _c: &MemoryConsumer) { self.registered.fetch_add(1, atomic::Ordering::Relaxed); }
        fn unregister(&self, _c: &MemoryConsumer) { self.registered.fetch_sub(1, atomic::Ordering::Relaxed); }
        fn grow(&self, _r: &MemoryReservation, a: usize) { self.used.fetch_add(a, atomic::Ordering::Relaxed); }
        fn shrink(&self, _r: &MemoryReservation, s: usize) { self.used.fetch_sub(s, atomic::Ordering::Relaxed); }
        fn try_grow(&self, _r: &MemoryReservation, a: usize) -> Result<()> {
            if self.grant { self.used.fetch_add(a, atomic::Ordering::Relaxed); Ok(()) }
            else { Err(datafusion_common::DataFusionError::ResourcesExhausted(String::new())) }
        }
        fn reserved(&self) -> usize { self.used.load(atomic::Ordering::Relaxed) }
    }
    fn stub_format(_a: std::fmt::Arguments<'_>) -> String { String::new() }

    /// Modular step for `impl Drop for SharedRegistration` (its body is the dyn call
    /// `pool.unregister(&consumer)`; inside `Arc::drop_slow` CBMC no longer resolves that vtable
    /// call and expands every MemoryPool implementor -- probed: >300 s).  The ledger harnesses
    /// see the drop through this stub, which only counts; the real impl is proved to call
    /// `unregister` exactly once, with its own consumer, in `c17_shared_registration_drop`.
    static GHOST_UNREGISTERED: AtomicUsize = AtomicUsize::new(0);
    fn stub_shared_registration_drop(_s: &mut SharedRegistration) {
        GHOST_UNREGISTERED.fetch_add(1, atomic::Ordering::Relaxed);
    }

    #[kani::proof]
    #[kani::unwind(3)]
    fn c17_shared_registration_drop() {
        let cp = Arc::new(ContractPool { used: AtomicUsize::new(0), grant: kani::any(), registered: AtomicUsize::new(5) });
        let pool: Arc<dyn MemoryPool> = cp.clone();
        let sr = SharedRegistration { pool: Arc::clone(&pool), consumer: MemoryConsumer { name: String::new(), can_spill: kani::any(), id: kani::any() } };
        drop(sr);
        assert!(cp.registered.load(atomic::Ordering::Relaxed) == 4, "C17.registration.drop_unregisters_exactly_once");
        assert!(Arc::strong_count(&cp) == 2, "C17.registration.drop_releases_its_pool_handle");
    }
    /// releasing the reservation's handle on the pool object never frees the pool here (the harness
    /// holds another handle); stubbed so that CBMC does not expand the drop glue of every MemoryPool
    /// implementor behind the vtable
    fn stub_arc_pool_drop(_a: &mut Arc<dyn MemoryPool>) {}

    struct World { cp: Arc<ContractPool>, r1: MemoryReservation, r2: MemoryReservation, s1: usize, s2: usize, other: usize }
    fn world(same: bool) -> World {
        let grant: bool = kani::any();
        let cp = Arc::new(ContractPool { used: AtomicUsize::new(0), grant, registered: AtomicUsize::new(0) });
        let pool: Arc<dyn MemoryPool> = cp.clone();
        let r1 = MemoryConsumer::new("a").with_can_spill(kani::any()).register(&pool);
        // second reservation: same consumer (shares the registration) or a different one
        let r2 = if same { r1.new_empty() } else { MemoryConsumer::new("b").register(&pool) };
        let (s1, s2, other): (usize, usize, usize) = (kani::any(), kani::any(), kani::any());
        kani::assume(s1 <= Q && s2 <= Q && other <= Q);
        r1.size.store(s1, atomic::Ordering::Relaxed);
        r2.size.store(s2, atomic::Ordering::Relaxed);
        cp.used.store(s1 + s2 + other, atomic::Ordering::Relaxed);
        World { cp, r1, r2, s1, s2, other }
    }

    /// one ledger step (non-panicking domain) re-establishes L and changes the named
    /// reservation by exactly the stated delta
    fn ledger_step(op: u8, same: bool) {
        let mut w = world(same);
        let c: usize = kani::any();
        kani::assume(c <= Q);
        let grant = w.cp.grant;
        let mut extra: Option<MemoryReservation> = None;
        let mut exp1 = w.s1; // expected size of r1 afterwards
        match op {
            0 => { w.r1.grow(c); exp1 = w.s1 + c; }
            1 => {
                let res = w.r1.try_grow(c);
                let ok = res.is_ok();
                std::mem::forget(res);
                assert!(ok == grant, "C17.ledger.try_grow.outcome_is_pool_outcome");
                exp1 = if ok { w.s1 + c } else { w.s1 }; // a failed growth attempt changes nothing
            }
            2 => { kani::assume(c <= w.s1); w.r1.shrink(c); exp1 = w.s1 - c; }
            3 => {
                kani::assume(c <= w.s1); // the error path is not covered: see NOT_COVERED of the unit (Kani artefact with stubbed formatting)
                let res = w.r1.try_shrink(c);
                match &res {
                    Ok(n) => { assert!(c <= w.s1 && *n == w.s1 - c, "C17.ledger.try_shrink.ok_returns_new_size"); exp1 = w.s1 - c; }
                    Err(_) => { assert!(c > w.s1, "C17.ledger.try_shrink.err_only_beyond_size"); }
                }
                std::mem::forget(res);
            }
            4 => { let n = w.r1.free(); assert!(n == w.s1, "C17.ledger.free.returns_size"); exp1 = 0; }
            5 => { w.r1.resize(c); exp1 = c; }
            6 => {
                let res = w.r1.try_resize(c);
                let ok = res.is_ok();
                std::mem::forget(res);
                assert!(ok == (c <= w.s1 || grant), "C17.ledger.try_resize.fails_only_when_pool_refuses_growth");
                exp1 = if ok { c } else { w.s1 };
            }
            7 => {
                kani::assume(c <= w.s1);
                let r3 = w.r1.split(c);
                assert!(r3.size() == c, "C17.ledger.split.new_reservation_has_capacity");
                exp1 = w.s1 - c;
                extra = Some(r3);
            }
            _ => {
                let r3 = w.r1.take();
                assert!(r3.size() == w.s1, "C17.ledger.take.moves_everything");
                exp1 = 0;
                extra = Some(r3);
            }
        }
        let e = match &extra { Some(r) => r.size(), None => 0 };
        assert!(w.r1.size() == exp1, "C17.ledger.step.exact_delta_on_named_reservation");
        assert!(w.r2.size() == w.s2, "C17.ledger.step.other_reservation_untouched");
        assert!(w.cp.reserved() == w.r1.size() + w.r2.size() + e + w.other, "C17.ledger.step.reserved_equals_sum_of_live_reservations");
        // dropping the split-off reservation returns exactly its bytes
        drop(extra);
        assert!(w.cp.reserved() == w.r1.size() + w.r2.size() + w.other, "C17.ledger.drop.returns_its_bytes");
        kani::cover!(c > w.s1 || op == 2 || op == 3 || op == 7);
        kani::cover!(c > 0 && c <= w.s1 && w.s2 > 0 && w.other > 0);
        // dropping everything: reserved() goes back to the foreign bytes, every consumer unregistered
        let World { cp, r1, r2, other, .. } = w;
        drop(r1);
        drop(r2);
        assert!(cp.reserved() == other, "C17.ledger.drop_all.zero_once_all_dropped");
        // every registration is released exactly once (ghost count of SharedRegistration drops)
        assert!(GHOST_UNREGISTERED.load(atomic::Ordering::Relaxed) == if same { 1 } else { 2 }, "C17.ledger.drop_all.every_registration_released_once");
    }

    macro_rules! ledger_ops {
        ($($name:ident = ($op:expr, $same:expr);)*) => { $(
            #[kani::proof]
            #[kani::unwind(3)]
            #[kani::stub(std::fmt::format, stub_format)]
            #[kani::stub(<SharedRegistration as std::ops::Drop>::drop, stub_shared_registration_drop)]
            fn $name() { ledger_step($op, $same); }
        )* };
    }
    ledger_ops! {
        c17_ledger_grow = (0, false);
        c17_ledger_try_grow = (1, false);
        c17_ledger_shrink = (2, false);
        c17_ledger_try_shrink = (3, false);
        c17_ledger_free = (4, false);
        c17_ledger_resize = (5, false);
        c17_ledger_try_resize = (6, false);
        c17_ledger_split = (7, true);
        c17_ledger_take = (8, true);
        c17_ledger_try_grow_shared_consumer = (1, true);
        c17_ledger_free_shared_consumer = (4, true);
    }

    /// shrink / split beyond the size panic (nothing is handed out that was not reserved)
    #[kani::proof]
    #[kani::unwind(3)]
    #[kani::should_panic]
    #[kani::stub(std::fmt::format, stub_format)]
    fn c17_ledger_shrink_beyond_size_panics() {
        let w = world(false);
        let c: usize = kani::any();
        kani::assume(c > w.s1);
        if kani::any() { w.r1.shrink(c); } else { let r3 = w.r1.split(c); std::mem::forget(r3); }
        std::mem::forget(w);
    }
}
