// Kani harnesses for datafusion/execution/src/memory_pool/pool.rs (property C17).
#[allow(unused_qualifications, unused_imports, dead_code, clippy::all)]
mod verif_kani {
    use super::*;
    use std::sync::Arc;

    // parking_lot's contended paths are unreachable without threads (and make kani-compiler ICE)
    fn stub_lock_slow(_m: &parking_lot::RawMutex, _t: Option<std::time::Instant>) -> bool { kani::assume(false); true }
    fn stub_unlock_slow(_m: &parking_lot::RawMutex, _f: bool) { kani::assume(false); }
    // error text is opaque
    fn stub_err<P: MemoryPool>(_r: &MemoryReservation, _additional: usize, _available: usize, _pool: &P) -> DataFusionError {
        DataFusionError::ResourcesExhausted(String::new())
    }
    const HALF: usize = usize::MAX / 2;

    /// GreedyMemoryPool: Ok <=> used + a <= pool_size; Ok => used' = used + a; Err => used' = used
    #[kani::proof]
    #[kani::unwind(3)]
    #[kani::stub(insufficient_capacity_err, stub_err)]
    fn c17_greedy_try_grow() {
        let pool_size: usize = kani::any();
        let g = Arc::new(GreedyMemoryPool { pool_size, used: AtomicUsize::new(0) });
        let pool: Arc<dyn MemoryPool> = g.clone();
        let r = MemoryConsumer::new("c").register(&pool);
        let used0: usize = kani::any();
        let add: usize = kani::any();
        kani::assume(used0 <= HALF && add <= HALF);
        g.used.store(used0, Ordering::Relaxed);
        let res = g.try_grow(&r, add);
        let ok = res.is_ok();
        std::mem::forget(res);
        let used1 = g.used.load(Ordering::Relaxed);
        assert!(ok == (used0 + add <= pool_size), "C17.greedy.try_grow.granted_iff_within_limit");
        if ok {
            assert!(used1 == used0 + add, "C17.greedy.try_grow.ok_adds_exactly");
            assert!(used1 <= pool_size, "C17.greedy.try_grow.never_beyond_limit");
        } else {
            assert!(used1 == used0, "C17.greedy.try_grow.failed_attempt_changes_nothing");
        }
        assert!(g.reserved() == used1, "C17.greedy.reserved_reports_used");
        kani::cover!(ok && add > 0);
        kani::cover!(!ok);
        std::mem::forget(r);
    }

    /// infallible grow / shrink of Greedy and Unbounded: exact deltas
    #[kani::proof]
    #[kani::unwind(3)]
    fn c17_greedy_unbounded_grow_shrink() {
        let pool_size: usize = kani::any();
        let g = Arc::new(GreedyMemoryPool { pool_size, used: AtomicUsize::new(0) });
        let pool: Arc<dyn MemoryPool> = g.clone();
        let r = MemoryConsumer::new("c").register(&pool);
        let used0: usize = kani::any();
        let a: usize = kani::any();
        let s: usize = kani::any();
        kani::assume(used0 <= HALF / 2 && a <= HALF / 2 && s <= used0 + a);
        g.used.store(used0, Ordering::Relaxed);
        g.grow(&r, a);
        assert!(g.reserved() == used0 + a, "C17.greedy.grow.exact");
        g.shrink(&r, s);
        assert!(g.reserved() == used0 + a - s, "C17.greedy.shrink.exact");

        let u = UnboundedMemoryPool { used: AtomicUsize::new(used0) };
        u.grow(&r, a);
        assert!(u.reserved() == used0 + a, "C17.unbounded.grow.exact");
        let res = u.try_grow(&r, a);
        assert!(res.is_ok(), "C17.unbounded.try_grow.always_ok");
        std::mem::forget(res);
        assert!(u.reserved() == used0 + a + a, "C17.unbounded.try_grow.exact");
        u.shrink(&r, s);
        assert!(u.reserved() == used0 + a + a - s, "C17.unbounded.shrink.exact");
        kani::cover!(a > 0 && s > 0);
        std::mem::forget(r);
    }

    /// TrackedConsumer: exact reserved, peak >= reserved and peak = max(old peak, new reserved)
    #[kani::proof]
    #[kani::unwind(3)]
    fn c17_tracked_consumer() {
        let r0: usize = kani::any();
        let p0: usize = kani::any();
        let a: usize = kani::any();
        let s: usize = kani::any();
        kani::assume(r0 <= HALF && a <= HALF && p0 >= r0 && s <= r0 + a);
        let t = TrackedConsumer { name: String::new(), can_spill: kani::any(), reserved: AtomicUsize::new(r0), peak: AtomicUsize::new(p0) };
        t.grow(a);
        assert!(t.reserved() == r0 + a, "C17.tracked.grow.exact");
        assert!(t.peak() == if p0 >= r0 + a { p0 } else { r0 + a }, "C17.tracked.peak_is_running_max");
        assert!(t.peak() >= t.reserved(), "C17.tracked.peak_at_least_current");
        let p1 = t.peak();
        t.shrink(s);
        assert!(t.reserved() == r0 + a - s, "C17.tracked.shrink.exact");
        assert!(t.peak() == p1 && t.peak() >= t.reserved(), "C17.tracked.shrink_keeps_peak");
        kani::cover!(p0 < r0 + a);
        std::mem::forget(t);
    }

    /// bounded twin of the Verus unit (cross-check of rewrite R10 on the unextracted code):
    /// FairSpillPool::try_grow on the real crate, all counters < 2^10 so that the division is tractable
    #[kani::proof]
    #[kani::unwind(3)]
    #[kani::stub(parking_lot::RawMutex::lock_slow, stub_lock_slow)]
    #[kani::stub(parking_lot::RawMutex::unlock_slow, stub_unlock_slow)]
    #[kani::stub(insufficient_capacity_err, stub_err)]
    fn c17_fair_try_grow_narrow_bounded() {
        const B: usize = 1 << 10;
        let pool_size: usize = kani::any();
        let fair = Arc::new(FairSpillPool::new(pool_size));
        let pool: Arc<dyn MemoryPool> = fair.clone();
        let can_spill: bool = kani::any();
        let r = MemoryConsumer::new("c").with_can_spill(can_spill).register(&pool);
        let ns: usize = kani::any();
        let sp: usize = kani::any();
        let un: usize = kani::any();
        let sz: usize = kani::any();
        let add: usize = kani::any();
        kani::assume(pool_size < B && ns < 8 && sp < B && un < B && sz < B && add < B);
        kani::assume(ns >= 1 || !can_spill);
        {
            let mut st = fair.state.lock();
            st.num_spill = ns;
            st.spillable = sp;
            st.unspillable = un;
        }
        r.size.store(sz, Ordering::Relaxed);
        let res = fair.try_grow(&r, add);
        let ok = res.is_ok();
        std::mem::forget(res);
        {
            let st = fair.state.lock();
            if ok {
                assert!(st.num_spill == ns, "C17.fair.try_grow.ok_keeps_num_spill");
                if can_spill {
                    assert!(st.spillable == sp + add && st.unspillable == un, "C17.fair.try_grow.ok_spillable_delta");
                    assert!((sz + add) * ns <= pool_size.saturating_sub(un), "C17.fair.try_grow.within_fair_share");
                } else {
                    assert!(st.unspillable == un + add && st.spillable == sp, "C17.fair.try_grow.ok_unspillable_delta");
                    assert!(add == 0 || un + sp + add <= pool_size, "C17.fair.try_grow.within_limit");
                }
            } else {
                assert!(st.spillable == sp && st.unspillable == un && st.num_spill == ns, "C17.fair.try_grow.failed_attempt_changes_nothing");
            }
        }
        kani::cover!(ok && can_spill && add > 0);
        kani::cover!(ok && !can_spill && add > 0);
        kani::cover!(!ok);
        std::mem::forget(r);
    }
}
