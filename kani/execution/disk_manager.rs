// Kani harnesses for datafusion/execution/src/disk_manager.rs (property C21,
// accounting half).  Included into the real module by the cfg(kani) hook.
#[allow(unused_qualifications, unused_imports, dead_code, clippy::all)]
mod verif_kani {
    use super::*;
    use std::io::Write;
    use std::os::fd::FromRawFd;

    // ---- stubs: the syscall and error-formatting layer (opaque, nondeterministic) ----
    // fault model of the property: the underlying write may fail at any call
    fn stub_write(_f: &mut std::fs::File, buf: &[u8]) -> std::io::Result<usize> {
        if kani::any() { Ok(buf.len()) } else { Err(std::io::Error::from_raw_os_error(28)) }
    }
    fn stub_from(e: DataFusionError) -> std::io::Error {
        std::mem::forget(e);
        std::io::Error::from_raw_os_error(5)
    }
    fn stub_hrs(_n: usize) -> String { String::new() }
    fn stub_format(_a: std::fmt::Arguments<'_>) -> String { String::new() }

    fn mk_dm(limit: u64, used0: u64, files: usize) -> Arc<DiskManager> {
        Arc::new(DiskManager {
            local_dirs: Mutex::new(None),
            max_temp_directory_size: AtomicU64::new(limit),
            max_spill_merge_fan_in: AtomicUsize::new(0),
            used_disk_space: Arc::new(AtomicU64::new(used0)),
            active_files_count: Arc::new(AtomicUsize::new(files)),
            factory: None,
        })
    }

    /// contract of `FileSpillWriter::write`, full u64 domain for usage / limit / file usage:
    ///   Ok(n)  => n == len, used' == used + len, file' == file + len, (len == 0 or used' <= limit)
    ///   Err    => used' == used and file' == file   (both causes: quota and failed underlying write)
    #[kani::proof]
    #[kani::unwind(3)]
    #[kani::stub(<std::fs::File as std::io::Write>::write, stub_write)]
    #[kani::stub(<std::io::Error as std::convert::From<datafusion_common::DataFusionError>>::from, stub_from)]
    #[kani::stub(datafusion_common::human_readable_size, stub_hrs)]
    #[kani::stub(std::fmt::format, stub_format)]
    fn c21_write_accounting() {
        let limit: u64 = kani::any();
        let used0: u64 = kani::any();
        let file0: u64 = kani::any();
        // ghost invariant G restricted to this file: its bytes are part of the total;
        // no wrap of the global counter (2^63 bytes of spill)
        kani::assume(file0 <= used0 && used0 <= u64::MAX / 2);
        let dm = mk_dm(limit, used0, 1);
        let usage = Arc::new(AtomicU64::new(file0));
        let mut w = FileSpillWriter {
            file: unsafe { std::fs::File::from_raw_fd(3) },
            disk_manager: Arc::clone(&dm),
            current_file_disk_usage: Arc::clone(&usage),
        };
        let buf = [0u8; 2];
        let len: usize = kani::any();
        kani::assume(len <= 2); // the code only uses buf.len(); 0,1,2 cover zero / non-zero
        let res = w.write(&buf[..len]);
        let ok = res.is_ok();
        let n = match &res { Ok(n) => *n, Err(_) => 0 };
        std::mem::forget(res);
        let used1 = dm.used_disk_space.load(Ordering::Relaxed);
        let file1 = usage.load(Ordering::Relaxed);
        if ok {
            assert!(n == len, "C21.write.ok_returns_len");
            assert!(used1 == used0 + len as u64, "C21.write.ok_adds_len_to_global_usage");
            assert!(file1 == file0 + len as u64, "C21.write.ok_adds_len_to_file_usage");
            assert!(len == 0 || used1 <= limit, "C21.write.ok_never_beyond_limit");
        } else {
            assert!(file1 == file0, "C21.write.err_leaves_file_usage_unchanged");
            assert!(used1 == used0, "C21.write.err_leaves_global_usage_unchanged");
        }
        // the invariant "file usage is part of the global usage" is kept
        assert!(file1 <= used1, "C21.write.file_usage_within_global");
        kani::cover!(ok && len == 2);
        kani::cover!(!ok && used0 + (len as u64) <= limit); // underlying write failed
        kani::cover!(!ok && used0 + (len as u64) > limit);  // quota rejection
        std::mem::forget(w);
        std::mem::forget(dm);
    }

    /// limit change takes effect for the next write; spilling-disabled manager rejects non-zero
    #[kani::proof]
    #[kani::unwind(3)]
    #[kani::stub(parking_lot::RawMutex::lock_slow, stub_lock_slow)]
    #[kani::stub(parking_lot::RawMutex::unlock_slow, stub_unlock_slow)]
    #[kani::stub(std::fmt::format, stub_format)]
    fn c21_set_limit() {
        let limit0: u64 = kani::any();
        let used0: u64 = kani::any();
        let dm = mk_dm(limit0, used0, 0);
        let new: u64 = kani::any();
        let res = dm.set_max_temp_directory_size(new);
        let ok = res.is_ok();
        std::mem::forget(res);
        // local_dirs == None and no factory: only 0 is accepted
        assert!(ok == (new == 0), "C21.set_limit.disabled_manager_accepts_only_zero");
        if ok { assert!(dm.max_temp_directory_size() == new, "C21.set_limit.stored"); }
        else { assert!(dm.max_temp_directory_size() == limit0, "C21.set_limit.err_unchanged"); }
        assert!(dm.used_disk_space() == used0, "C21.set_limit.usage_untouched");
        kani::cover!(ok);
        kani::cover!(!ok);
        std::mem::forget(dm);
    }
    fn stub_lock_slow(_m: &parking_lot::RawMutex, _t: Option<std::time::Instant>) -> bool { kani::assume(false); true }
    fn stub_unlock_slow(_m: &parking_lot::RawMutex, _f: bool) { kani::assume(false); }
}
