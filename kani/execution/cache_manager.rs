// Kani harness for cache/cache_manager.rs (property C40, validity rule): cached file metadata is
// considered valid exactly for a file whose size and modification time are unchanged.
#[allow(unused_qualifications, unused_imports, dead_code, clippy::all)]
mod verif_kani {
    use super::*;
    use std::mem::{size_of, MaybeUninit};

    /// a timestamp `epoch + d`, without naming chrono (not a direct dependency of this crate)
    fn ts_at<T: Default + std::ops::Add<std::time::Duration, Output = T>>(d: std::time::Duration) -> T { T::default() + d }

    /// forge an ObjectMeta of which only `size` and `last_modified` are initialised (the only fields
    /// the validity check may read); `last_modified` takes an arbitrary valid timestamp
    fn forge_meta(size: u64, secs: u64, nanos: u32) -> MaybeUninit<ObjectMeta> {
        let mut m: MaybeUninit<ObjectMeta> = MaybeUninit::uninit();
        unsafe {
            std::ptr::addr_of_mut!((*m.as_mut_ptr()).size).write(size);
            std::ptr::addr_of_mut!((*m.as_mut_ptr()).last_modified).write(ts_at(std::time::Duration::new(secs, nanos)));
        }
        m
    }

    #[kani::proof]
    #[kani::unwind(3)]
    fn c40_file_metadata_entry_valid_iff_size_and_mtime_unchanged() {
        let (s1, s2): (u64, u64) = (kani::any(), kani::any());
        // timestamps from a small window (chrono's calendar arithmetic divides; the check itself only compares)
        let (t1, t2): (u64, u64) = (kani::any(), kani::any());
        kani::assume(t1 < 4 && t2 < 4);
        let (n1, n2): (u32, u32) = (kani::any(), kani::any());
        kani::assume(n1 < 2 && n2 < 2);
        let cached_meta = forge_meta(s1, t1, n1);
        let current = forge_meta(s2, t2, n2);
        let mut entry: MaybeUninit<CachedFileMetadataEntry> = MaybeUninit::uninit();
        unsafe { std::ptr::copy_nonoverlapping(cached_meta.as_ptr(), std::ptr::addr_of_mut!((*entry.as_mut_ptr()).meta), 1); }
        let e = unsafe { &*entry.as_ptr() };
        let valid = e.is_valid_for(unsafe { &*current.as_ptr() });
        assert!(valid == (s1 == s2 && t1 == t2 && n1 == n2), "C40.validity.valid_iff_size_and_mtime_unchanged");
        kani::cover!(valid);
        kani::cover!(!valid && s1 == s2);
    }
}
