// Kani harnesses for datafusion/execution/src/memory_pool/peak_recording.rs (property C17).
#[allow(unused_qualifications, unused_imports, dead_code, clippy::all)]
mod verif_kani {
    use super::*;
    use crate::memory_pool::UnboundedMemoryPool;
    const HALF: usize = usize::MAX / 2;

    /// a minimal inner pool whose try_grow outcome is nondeterministic: the wrapper's contract
    /// must hold for whatever the wrapped pool decides
    #[derive(Debug)]
    struct AnyInner { grant: bool, used: AtomicUsize }
    impl std::fmt::Display for AnyInner {
        fn fmt(&self, _f: &mut Formatter<'_>) -> std::fmt::Result { Ok(()) }
    }
    impl MemoryPool for AnyInner {
        fn name(&self) -> &str { "any" }
        fn grow(&self, _r: &MemoryReservation, a: usize) { self.used.fetch_add(a, Ordering::Relaxed); }
        fn shrink(&self, _r: &MemoryReservation, s: usize) { self.used.fetch_sub(s, Ordering::Relaxed); }
        fn try_grow(&self, _r: &MemoryReservation, a: usize) -> Result<()> {
            if self.grant { self.used.fetch_add(a, Ordering::Relaxed); Ok(()) }
            else { Err(datafusion_common::DataFusionError::ResourcesExhausted(String::new())) }
        }
        fn reserved(&self) -> usize { self.used.load(Ordering::Relaxed) }
    }

    #[kani::proof]
    #[kani::unwind(3)]
    fn c17_peak_recording() {
        let grant: bool = kani::any();
        let r0: usize = kani::any();
        let p0: usize = kani::any();
        let m0: usize = kani::any();
        let a: usize = kani::any();
        kani::assume(r0 <= HALF && a <= HALF && p0 >= r0 && m0 >= p0);
        let inner_concrete = Arc::new(AnyInner { grant, used: AtomicUsize::new(r0) });
        let inner: Arc<dyn MemoryPool> = inner_concrete.clone();
        let rec = Arc::new(PeakRecordingPool { inner, reserved: AtomicUsize::new(r0), peak: AtomicUsize::new(p0), max: AtomicUsize::new(m0) });
        let pool: Arc<dyn MemoryPool> = rec.clone();
        let r = MemoryConsumer::new("c").register(&pool);
        let op: u8 = kani::any();
        kani::assume(op < 4);
        let mx = |x: usize, y: usize| if x >= y { x } else { y };
        match op {
            0 => {
                let res = rec.try_grow(&r, a);
                let ok = res.is_ok();
                std::mem::forget(res);
                assert!(ok == grant, "C17.peak.try_grow.outcome_is_inner_outcome");
                if ok {
                    assert!(rec.reserved.load(Ordering::Relaxed) == r0 + a, "C17.peak.try_grow.ok_running_total");
                    assert!(rec.peak_reserved() == mx(p0, r0 + a), "C17.peak.try_grow.ok_peak_is_max");
                    assert!(rec.max_reserved() == mx(m0, r0 + a), "C17.peak.try_grow.ok_max_is_max");
                } else {
                    assert!(rec.reserved.load(Ordering::Relaxed) == r0 && rec.peak_reserved() == p0 && rec.max_reserved() == m0,
                            "C17.peak.try_grow.failed_attempt_moves_nothing");
                }
            }
            1 => {
                rec.grow(&r, a);
                assert!(rec.reserved.load(Ordering::Relaxed) == r0 + a, "C17.peak.grow.running_total");
                assert!(rec.peak_reserved() == mx(p0, r0 + a) && rec.max_reserved() == mx(m0, r0 + a), "C17.peak.grow.marks");
            }
            2 => {
                kani::assume(a <= r0);
                rec.shrink(&r, a);
                assert!(rec.reserved.load(Ordering::Relaxed) == r0 - a, "C17.peak.shrink.running_total");
                assert!(rec.peak_reserved() == p0 && rec.max_reserved() == m0, "C17.peak.shrink.keeps_marks");
            }
            _ => {
                rec.reset_peak();
                assert!(rec.peak_reserved() == r0 && rec.max_reserved() == m0, "C17.peak.reset.peak_becomes_current_max_kept");
            }
        }
        // representation invariant after every operation; the wrapper mirrors the inner total
        assert!(rec.peak_reserved() >= rec.reserved.load(Ordering::Relaxed), "C17.peak.inv.peak_ge_current");
        assert!(rec.max_reserved() >= rec.peak_reserved(), "C17.peak.inv.max_ge_peak");
        assert!(rec.reserved() == rec.reserved.load(Ordering::Relaxed), "C17.peak.inv.mirror_of_inner_total");
        kani::cover!(op == 0 && grant && p0 < r0 + a);
        kani::cover!(op == 0 && !grant);
        kani::cover!(op == 3 && p0 > r0);
        std::mem::forget(r);
    }
}
